#!/venv/bin/python
"""Rewrite the tables between the TABLES markers of DESIGN.md."""
import os
import subprocess
VERIF = os.path.dirname(os.path.dirname(os.path.abspath(__file__)))
hand = subprocess.check_output([os.path.join(VERIF, "tools", "report.py"), "hand"], text=True)
seeded = subprocess.check_output([os.path.join(VERIF, "tools", "report.py"), "seeded"], text=True)
n_seeded = seeded.count("\n| `")
caught = sum(1 for l in seeded.splitlines() if l.startswith("| `") and "caught" in l)
p = os.path.join(VERIF, "DESIGN.md")
s = open(p).read()
a = s.index("<!-- TABLES:BEGIN -->") + len("<!-- TABLES:BEGIN -->")
b = s.index("<!-- TABLES:END -->")
body = ("\n\n**Hand-written mutants** (`mutants/*.patch`)\n\n" + hand +
        f"\n**Seeded changes by sub-agents** (`seeded/<id>/`; r2 ... r5 = later rounds): {caught} of {n_seeded} caught by at least one quick check\n" + seeded + "\n")
open(p, "w").write(s[:a] + body + s[b:])
print("tables written:", n_seeded, "seeded,", caught, "caught")
