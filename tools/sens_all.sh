#!/bin/sh
# run every hand-written mutant against its target checks; report to out/sens_report.txt
cd "$(dirname "$0")/.." || exit 2
mkdir -p out
: > out/sens_report.txt
for patch in mutants/*.patch; do
  name=$(basename "$patch" .patch)
  targets=$(cat "mutants/$name.targets")
  echo "##### $name -> $targets" >> out/sens_report.txt
  SENS_RUN_TESTS=1 SENS_BUDGET="${SENS_BUDGET:-20}" tools/sens.sh "$patch" $targets >> out/sens_report.txt 2>&1
done
echo DONE >> out/sens_report.txt
