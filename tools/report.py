#!/venv/bin/python
"""Markdown tables for DESIGN.md from out/sens_report.txt and seeded/*/meta.json."""
import glob
import json
import os
import re
import sys

VERIF = os.path.dirname(os.path.dirname(os.path.abspath(__file__)))


def hand():
    path = os.path.join(VERIF, "out", "sens_report.txt")
    if not os.path.exists(path):
        return
    rows = []
    cur = None
    for line in open(path):
        m = re.match(r"##### (\S+) -> (.*)", line)
        if m:
            cur = dict(name=m.group(1), targets=m.group(2).split(), tests="?", res={})
            rows.append(cur)
            continue
        if cur is None:
            continue
        if re.search(r"\d+ passed", line):
            cur["tests"] = "pass" if "failed" not in line else re.search(r"(\d+) failed", line).group(1) + " fail"
        m = re.match(r"\[(C\d+)\].*runs=(\d+)", line)
        if m:
            cur["last"] = m.group(1)
            cur["res"][m.group(1)] = dict(runs=int(m.group(2)), sig=None)
        m = re.match(r"VIOLATION property=(C\d+)", line)
        if m:
            cur["res"].setdefault(m.group(1), {})["viol"] = True
        m = re.match(r"\s+signature: (.*?)  \(seed", line)
        if m and cur.get("last"):
            cur["res"][cur["last"]]["sig"] = m.group(1)
    print("| hand-written mutant | existing tests | check: outcome (runs until found / signature) |")
    print("|---|---|---|")
    for r in rows:
        cells = []
        for p in r["targets"]:
            x = r["res"].get(p)
            if not x:
                cells.append(f"{p}: not run")
            elif x.get("viol"):
                cells.append(f"**{p}: caught** ({x.get('runs')} runs; `{(x.get('sig') or '')[:90]}`)")
            else:
                cells.append(f"{p}: missed ({x.get('runs')} runs)")
        print(f"| `{r['name']}` | {r['tests']} | {'; '.join(cells)} |")


def seeded():
    print("\n| seeded change | breaks | test suite with change | check: outcome |")
    print("|---|---|---|---|")
    for d in sorted(glob.glob(os.path.join(VERIF, "seeded", "*"))):
        mp = os.path.join(d, "meta.json")
        if not os.path.exists(mp):
            continue
        m = json.load(open(mp))
        v = m.get("verification", {})
        cells = []
        for p, x in m.get("checks", {}).items():
            if x.get("detected"):
                cells.append(f"**{p}: caught** (`{(x.get('signature') or '')[:80]}`)")
            else:
                cells.append(f"{p}: missed (exit {x.get('exit')})")
        print(f"| `{os.path.basename(d)}` | {m.get('breaks')} | {v.get('test_suite_with_change')} | {'; '.join(cells)} |")


if __name__ == "__main__":
    what = sys.argv[1] if len(sys.argv) > 1 else "all"
    if what in ("hand", "all"):
        hand()
    if what in ("seeded", "all"):
        seeded()
