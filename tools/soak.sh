#!/bin/sh
# tools/soak.sh <first seed> <last seed> [tier] [budget]: every check under many VERIF_SEED values;
# prints one line per check and full output for anything that is not a clean pass
cd "$(dirname "$0")/.." || exit 2
first="$1"; last="$2"; tier="${3:-quick}"; budget="${4:-40}"
export VERIF_EVIDENCE_DIR="$PWD/out/soak-evidence"
mkdir -p "$VERIF_EVIDENCE_DIR"
s="$first"
while [ "$s" -le "$last" ]; do
  for p in C01 C02 C03 C05 C06 C08 C09 C10 C11 C15 C16 C17 C19; do
    out=$(./check "$p" --tier "$tier" --seed "$s" --budget "$budget" 2>&1); rc=$?
    echo "seed=$s $p rc=$rc $(echo "$out" | grep '^\[' | head -1)"
    if [ "$rc" -ne 0 ]; then echo "$out" | cut -c1-3000; fi
    echo "$out" | grep -E '^(INCONCLUSIVE|HARNESS-ERROR)' | cut -c1-600
  done
  s=$((s + 1))
done
