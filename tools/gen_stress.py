#!/venv/bin/python
"""Generator stress: generate (not execute) many histories per profile and
tier; any exception in the generator is a harness bug.

  tools/gen_stress.py [n per profile] [base]
"""
import os
import sys
import traceback
from concurrent.futures import ProcessPoolExecutor
import multiprocessing as mp

sys.path.insert(0, os.path.dirname(os.path.dirname(os.path.abspath(__file__))))
from sim import gen  # noqa: E402

PROFS = ["C01", "C02", "C03", "C05", "C06", "C08", "C09", "C10", "C11", "C15", "C16", "C17", "C19"]


def one(args):
    prop, tier, seed = args
    try:
        gen.generate(seed, prop, tier)
        return None
    except Exception:  # noqa: BLE001
        return (prop, tier, seed, traceback.format_exc()[-600:])


def main():
    n = int(sys.argv[1]) if len(sys.argv) > 1 else 300
    base = sys.argv[2] if len(sys.argv) > 2 else "stress"
    jobs = [(p, t, f"{base}/{p}/{i}") for p in PROFS for t in ("quick", "thorough") for i in range(n)]
    bad = []
    with ProcessPoolExecutor(max_workers=16, mp_context=mp.get_context("fork")) as ex:
        for r in ex.map(one, jobs, chunksize=8):
            if r:
                bad.append(r)
    print(f"generator stress: {len(jobs)} histories, {len(bad)} failures")
    for b in bad[:5]:
        print(b)
    return 1 if bad else 0


if __name__ == "__main__":
    sys.exit(main())
