#!/venv/bin/python
"""Create /verif/mutants/*.patch (hand-written sensitivity suite, DESIGN 7).

Each mutant is a textual replacement in a scratch worktree of /repo HEAD; the
resulting `git diff` is stored.  Run from /verif:  tools/mk_mutants.py
"""
import os
import subprocess
import sys

S = "src/stereomolgraph/"
M = [
    # name, targets, file, old, new
    ("m01_stereo_feasibility_wrong_index", "C01 C05", S + "algorithms/isomorphism.py",
     "        for stereo in params.g2_stereo[v]\n", "        for stereo in params.g2_stereo[u]\n"),
    ("m03_revert_forgets_external", "C05", S + "algorithms/isomorphism.py",
     "            frontier1.discard(neighbor)\n            external1.add(neighbor)\n",
     "            frontier1.discard(neighbor)\n"),
    ("m04_ctor_shallow_copy", "C10", S + "graphs/mg.py",
     "            self._atom_attrs = deepcopy(mol_graph._atom_attrs)\n",
     "            self._atom_attrs = dict(mol_graph._atom_attrs)\n"),
    ("m05_remove_bond_forgets_one_side", "C09", S + "graphs/mg.py",
     "        self._neighbors[atom1].discard(atom2)\n        self._neighbors[atom2].discard(atom1)\n",
     "        self._neighbors[atom1].discard(atom2)\n"),
    ("m06_add_bond_no_membership_test", "C19", S + "graphs/mg.py",
     "        if atom1 not in self.atoms or atom2 not in self.atoms:\n            raise ValueError(\"Atoms not in Graph\")\n        if atom1 == atom2:",
     "        if atom1 == atom2:"),
    ("m07_octahedral_table_entry", "C01 C03", S + "stereodescriptors.py",
     "            (0, 6, 4, 1, 5, 2, 3),\n", "            (0, 6, 4, 1, 5, 3, 2),\n"),
    ("m09_atrop_parity_not_normalised_in_hash", "C03", S + "algorithms/color_refine.py",
     "            grouped_bond_stereo[stereo.PERMUTATION_GROUP].append(\n                (bond, nbr_atoms)\n",
     "            grouped_bond_stereo[stereo.PERMUTATION_GROUP].append(\n                (bond, stereo.atoms)\n"),
    ("m10_json_drops_fleeting_change", "C15", S + "experimental.py",
     "                fleeting = cls._stereo_from_payload(\n                    change_dict.get(\"FLEETING\")\n                )\n                if any((broken, formed, fleeting)):\n                    graph.set_atom_stereo_change(",
     "                fleeting = None\n                if any((broken, formed, fleeting)):\n                    graph.set_atom_stereo_change("),
    ("m11_reverse_keeps_change_roles", "C08", S + "graphs/scrg.py",
     "                \"broken\": atom_change_dict[Change.FORMED],\n                \"formed\": atom_change_dict[Change.BROKEN],\n",
     "                \"broken\": atom_change_dict[Change.BROKEN],\n                \"formed\": atom_change_dict[Change.FORMED],\n"),
    ("m12_enantiomer_skips_fleeting_change", "C06", S + "graphs/scrg.py",
     "                    change.value: stereo.invert() if stereo else None\n",
     "                    change.value: (stereo.invert() if stereo and change != Change.FLEETING else stereo)\n"),
    ("m13_relabel_bond_stereo_old_key", "C11", S + "graphs/smg.py",
     "            new_bond_stereo_dict[frozenset(new_bond)] = new_bond_stereo\n",
     "            new_bond_stereo_dict[frozenset(bond)] = new_bond_stereo\n"),
    ("m14_subgraph_bond_stereo_any", "C17", S + "graphs/smg.py",
     "            if all(atom in atoms for atom in bond_stereo.atoms\n                   if atom is not None):",
     "            if any(atom in atoms for atom in bond_stereo.atoms\n                   if atom is not None) and bond_stereo.bond <= atoms:"),
    ("m15_compose_stereo_first_wins", "C17", S + "graphs/smg.py",
     "        for mol_graph in mol_graphs:\n            graph._atom_stereo.update(cls(mol_graph)._atom_stereo)",
     "        for mol_graph in reversed(mol_graphs):\n            graph._atom_stereo.update(cls(mol_graph)._atom_stereo)"),
    ("m17_bond_stereo_single_round", "C16", S + "algorithms/color_refine.py",
     "        min_iter=2 if graph.bond_stereo else 1,\n", "        min_iter=1,\n"),
    ("m18_from_graphs_formed_becomes_static", "C08", S + "graphs/scrg.py",
     "            elif r_stereo is None and p_stereo is not None:\n                scrg.set_atom_stereo_change(formed=p_stereo)\n",
     "            elif r_stereo is None and p_stereo is not None:\n                scrg.set_atom_stereo(p_stereo)\n"),
    ("m19_reaction_label_unchecked", "C19", S + "graphs/crg.py",
     "        if attr == \"reaction\" and not isinstance(value, Change):\n            raise ValueError(\"reaction bond has to have reaction attribute\")\n",
     ""),
    ("m20_eq_accepts_subclasses", "C02", S + "graphs/mg.py",
     "        if type(other) is not type(self):\n", "        if not isinstance(other, self.__class__):\n"),
    ("m21_bonded_to_inserts", "C19 C09", S + "graphs/mg.py",
     "        return frozenset(self._neighbors[atom])\n", "        return frozenset(self._neighbors.setdefault(atom, set()))\n"),
    ("m22_copy_shares_bond_stereo", "C10", S + "graphs/smg.py",
     "        new_graph._bond_stereo = deepcopy(self._bond_stereo)\n        return new_graph\n",
     "        new_graph._bond_stereo = self._bond_stereo\n        return new_graph\n"),
    ("m23_symmetry_number_ignores_stereo", "C05", S + "experimental.py",
     "        graph, graph, atom_labels=(colorings, colorings), stereo=True\n",
     "        graph, graph, atom_labels=(colorings, colorings), stereo=False\n"),
    ("m24_relabel_drops_unmapped_change_centre", "C11", S + "graphs/scrg.py",
     "                new_atom = mapping.get(atom, atom)\n", "                new_atom = mapping.get(atom, None)\n                if new_atom is None:\n                    continue\n"),
    ("m25_element_attribute_deletable", "C19", S + "graphs/mg.py",
     "        if attr == \"atom_type\":\n            raise ValueError(\"atom_type can not be deleted\")\n        else:\n            self._atom_attrs[atom].pop(attr)",
     "        self._atom_attrs[atom].pop(attr)"),
    ("m26_find_candidates_ignores_degree", "C05 C02", S + "algorithms/isomorphism.py",
     "    candidates.intersection_update(\n        nodes_of_g2Labels[g1_labels[u]], g2_a_of_deg[g1_deg[u]]\n    )\n",
     "    candidates.intersection_update(nodes_of_g2Labels[g1_labels[u]])\n"),
    ("m27_remove_atom_keeps_bond_stereo", "C09", S + "graphs/smg.py",
     "        for bond, bond_stereo in self._bond_stereo.copy().items():\n            if atom in bond_stereo.atoms:\n                self.delete_bond_stereo(bond)\n        super().remove_atom(atom)",
     "        for bond, bond_stereo in self._bond_stereo.copy().items():\n            if atom in bond:\n                self.delete_bond_stereo(bond)\n        super().remove_atom(atom)"),
    ("m28_reactant_overlays_formed", "C08", S + "graphs/scrg.py",
     "        for atom, change_dict in self._atom_stereo_change.items():\n            if stereo := change_dict[Change.BROKEN]:\n                reactant._atom_stereo[atom] = stereo\n",
     "        for atom, change_dict in self._atom_stereo_change.items():\n            if stereo := (change_dict[Change.BROKEN] or change_dict[Change.FLEETING]):\n                reactant._atom_stereo[atom] = stereo\n"),
    ("m29_tbp_inversion_is_rotation", "C01 C03 C06", S + "stereodescriptors.py",
     "    inversion = (0, 1, 2, 3, 5, 4)\n", "    inversion = (0, 2, 1, 3, 5, 4)\n"),
    ("m31_eq_bond_roles_unchecked", "C02 C06", S + "graphs/crg.py",
     "            if o_attrs is None or (\n", "            if o_attrs is None and (\n"),
    ("m32_hash_seeded_by_string_hash", "C03", S + "algorithms/color_refine.py",
     "    initial_color_array = np.array(graph.atom_types, dtype=np.int64)\n    color_array = color_refine_mg(graph, atom_labels=initial_color_array)\n",
     "    initial_color_array = np.array([hash(str(t)) for t in graph.atom_types], dtype=np.int64)\n    color_array = color_refine_mg(graph, atom_labels=initial_color_array)\n"),
    ("m30_hash_multiset_unsorted_for_reaction", "C03", S + "algorithms/color_refine.py",
     "    color_array = color_refine_crg(graph)\n    return int(numpy_int_multiset_hash(color_array))",
     "    color_array = color_refine_crg(graph)\n    return int(numpy_int_tuple_hash(color_array))"),
]


def main():
    os.makedirs("mutants", exist_ok=True)
    wt = f"/tmp/mkmut_{os.getpid()}"
    subprocess.check_call(["git", "-C", "/repo", "worktree", "add", "-q", wt, "HEAD"])
    try:
        for name, targets, f, old, new in M:
            p = os.path.join(wt, f)
            s = open(p).read()
            if s.count(old) != 1:
                print("!! pattern count", s.count(old), name)
                continue
            open(p, "w").write(s.replace(old, new))
            diff = subprocess.check_output(["git", "-C", wt, "diff"], text=True)
            open(f"mutants/{name}.patch", "w").write(diff)
            open(f"mutants/{name}.targets", "w").write(targets + "\n")
            subprocess.check_call(["git", "-C", wt, "checkout", "-q", "--", "."])
            print("ok", name, targets)
    finally:
        subprocess.call(["git", "-C", "/repo", "worktree", "remove", "--force", wt])


if __name__ == "__main__":
    main()
