#!/venv/bin/python
"""Verify one seeded change and run the checks against it.

  tools/seeded_verify.py <seeded dir> <property id> [more property ids]

<seeded dir> holds patch.diff, demo.py (exit 0 on the original code, non-zero
with the change) and optionally notes.md.  Steps, all in a scratch worktree of
/repo outside /repo and /verif (removed afterwards):
  1. demo.py passes on the unchanged tree
  2. patch applies; package imports; full test suite passes; demo.py fails
  3. each named check (quick tier) is run against the changed tree via
     VERIF_REPO; evidence of these runs goes to out/sens-evidence
Writes <seeded dir>/meta.json.
"""
import json
import os
import re
import subprocess
import sys
import time

VERIF = os.path.dirname(os.path.dirname(os.path.abspath(__file__)))


def sh(cmd, cwd=None, env=None, timeout=1200):
    p = subprocess.run(cmd, shell=True, cwd=cwd, env=env, capture_output=True, text=True, timeout=timeout)
    return p.returncode, p.stdout + p.stderr


def main():
    d = os.path.abspath(sys.argv[1])
    props = sys.argv[2:]
    budget = os.environ.get("SENS_BUDGET", "40")
    skip_tests = bool(os.environ.get("SEEDED_SKIP_TESTS"))
    wt = f"/tmp/seedv_{os.getpid()}"
    meta_path = os.path.join(d, "meta.json")
    meta = {}
    if os.path.exists(meta_path):
        meta = json.load(open(meta_path))
    subprocess.check_call(["git", "-C", "/repo", "worktree", "add", "-q", wt, os.environ.get("SEEDED_BASE", "HEAD")])
    try:
        env = {**os.environ, "PYTHONPATH": f"{wt}/src"}
        rc0, out0 = sh(f"timeout 300 /venv/bin/python {d}/demo.py", cwd=wt, env=env)
        rc, out = sh(f"git apply {d}/patch.diff", cwd=wt)
        if rc != 0:
            print("PATCH DOES NOT APPLY", out)
            meta["applies"] = False
            json.dump(meta, open(meta_path, "w"), indent=1)
            return 3
        rc1, out1 = sh(f"timeout 300 /venv/bin/python {d}/demo.py", cwd=wt, env=env)
        tests = meta.get("verification", {}).get("test_suite_with_change")
        if not skip_tests:
            rct, outt = sh("timeout 1200 /venv/bin/python -m pytest -q -p no:cacheprovider --timeout=900 2>&1 | tail -1",
                           cwd=wt, env=env, timeout=1500)
            tests = outt.strip()
        results = {}
        for p in props:
            t0 = time.time()
            e = {**os.environ, "VERIF_REPO": wt, "VERIF_EVIDENCE_DIR": os.path.join(VERIF, "out", "sens-evidence")}
            os.makedirs(e["VERIF_EVIDENCE_DIR"], exist_ok=True)
            rcc, outc = sh(f"timeout 900 ./check {p} --tier quick --budget {budget}", cwd=VERIF, env=e)
            sig = re.findall(r"signature: (.*?)  \(seed", outc)
            head = [l for l in outc.splitlines() if l.startswith("[")]
            results[p] = dict(exit=rcc, detected=(rcc == 1 and "VIOLATION property=" + p in outc),
                              signature=sig[0] if sig else None, summary=head[0] if head else outc[-300:],
                              wall_s=round(time.time() - t0, 1))
            print(p, results[p])
        meta.update(dict(
            breaks=meta.get("breaks", props[0] if props else None),
            needs=meta.get("needs") or (open(os.path.join(d, "notes.md")).read().strip() if os.path.exists(os.path.join(d, "notes.md")) else ""),
            verification=dict(
                demo_on_unchanged_tree=("passes" if rc0 == 0 else f"FAILS rc={rc0}"),
                demo_with_change=("fails" if rc1 != 0 else "PASSES (not a useful change)"),
                test_suite_with_change=tests,
                commands=[f"git -C <scratch worktree of /repo HEAD> apply patch.diff",
                          "PYTHONPATH=<wt>/src /venv/bin/python demo.py",
                          "PYTHONPATH=<wt>/src /venv/bin/python -m pytest -q -p no:cacheprovider --timeout=900",
                          "VERIF_REPO=<wt> ./check <id> --tier quick"],
                repo_head=subprocess.check_output(["git", "-C", "/repo", "rev-parse", "--short", os.environ.get("SEEDED_BASE", "HEAD")], text=True).strip(),
            ),
            checks={**meta.get("checks", {}), **results},
        ))
        json.dump(meta, open(meta_path, "w"), indent=1)
        ok = rc0 == 0 and rc1 != 0 and tests and "passed" in tests and "failed" not in tests
        print("VALID" if ok else "INVALID", d, tests)
        return 0 if ok else 4
    finally:
        subprocess.call(["git", "-C", "/repo", "worktree", "remove", "--force", wt])


if __name__ == "__main__":
    sys.exit(main())
