#!/bin/sh
# verify every seeded change and run its target checks; log to out/seeded_report.txt
cd "$(dirname "$0")/.." || exit 2
mkdir -p out
for d in seeded/*/; do
  n=$(basename "$d")
  [ -n "$ONLY" ] && case "$n" in $ONLY) ;; *) continue;; esac
  p=${n%%-*}
  extra=""
  [ -f "$d/extra_props" ] && extra=$(cat "$d/extra_props")
  echo "##### $n -> $p $extra" >> out/seeded_report.txt
  tools/seeded_verify.py "$d" $p $extra >> out/seeded_report.txt 2>&1
done
echo DONE >> out/seeded_report.txt
