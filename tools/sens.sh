#!/bin/sh
# tools/sens.sh <patch.diff> <property id> [more ids...]
# Applies a seeded change to a scratch worktree of /repo (outside /repo and
# /verif), optionally checks that the existing test suite still passes, runs
# the quick checks of the given properties against it and removes the worktree.
# Evidence of these runs goes to out/sens-evidence, never to evidence/.
patch=$(realpath "$1"); shift
wt="/tmp/sens_$$"
cd "$(dirname "$0")/.." || exit 2
git -C /repo worktree add -q "$wt" HEAD || exit 2
trap 'git -C /repo worktree remove --force "$wt" >/dev/null 2>&1' EXIT
if ! git -C "$wt" apply "$patch"; then echo "PATCH-DOES-NOT-APPLY $patch"; exit 3; fi
if [ -n "$SENS_RUN_TESTS" ]; then
  (cd "$wt" && PYTHONPATH="$wt/src" timeout 900 /venv/bin/python -m pytest -q -p no:cacheprovider --timeout=900 2>&1 | tail -1)
fi
mkdir -p out/sens-evidence
for p in "$@"; do
  VERIF_REPO="$wt" VERIF_EVIDENCE_DIR="$PWD/out/sens-evidence" timeout 900 ./check "$p" --tier "${SENS_TIER:-quick}" ${SENS_BUDGET:+--budget $SENS_BUDGET} 2>&1 | grep -E "^\[|VIOLATION|signature|KNOWN|HARNESS" | cut -c1-300
done
