# developer conveniences; the registered commands are in MANIFEST.json
.PHONY: quick thorough selftest selftest-determinism selftest-oracle sensitivity seeded
quick:
	./run_all.sh quick
thorough:
	./run_all.sh thorough
selftest: selftest-oracle selftest-determinism selftest-reach
selftest-oracle:
	./check selftest oracle
selftest-reach:
	./check selftest reach
selftest-determinism:
	./check selftest determinism 40
sensitivity:
	tools/mk_mutants.py && tools/sens_all.sh && tools/report.py hand
seeded:
	tools/seeded_all.sh && tools/report.py seeded
