#!/bin/sh
# developer convenience: all checks of one tier, summary lines only
tier="${1:-quick}"
for p in C01 C02 C03 C05 C06 C08 C09 C10 C11 C15 C16 C17 C19; do
  ./check $p --tier "$tier" -v 2>&1 | grep -v "^  *detail" | tail -12
  echo "exit=$?"
done
