"""World of slots + total interpreter of concrete operation lists.

``World(real=False)`` runs the reference model alone (used by the generator,
which must never consult the library under test); ``World(real=True)`` runs
the real library in lock step and evaluates the invariants.
"""
from __future__ import annotations

import json
import random
from collections import Counter

from . import geom, model
from .model import RefGraph, B, ROLES


class Violation:
    def __init__(self, props, sig, detail, step, op):
        self.props = tuple(sorted(props))
        self.sig = sig
        self.detail = detail
        self.step = step
        self.op = op

    def as_dict(self):
        return {"props": list(self.props), "signature": self.sig,
                "detail": self.detail, "step": self.step, "op": self.op}

    def __repr__(self):
        return f"Violation({self.props}, {self.sig!r}, step={self.step})"


class Slot:
    __slots__ = ("kind", "model", "real", "prov", "family", "tainted", "locks",
                 "data", "origin")

    def __init__(self, kind, model=None, real=None, prov=(), family=None):
        self.kind = kind          # 'graph' | 'gen' | 'text'
        self.model = model
        self.real = real
        self.prov = list(prov)    # derivation kinds in the ancestry (latest last)
        self.family = family
        self.tainted = False
        self.locks = 0
        self.data = {}
        self.origin = None


PROBE_KINDS = ("probe_twin", "probe_pair", "probe_mutant", "probe_enant",
               "probe_flip", "enum_open", "symnum", "isomers_open")

# derivation kind -> property that owns a defect introduced by it
BLAME = {"relabel": "C11", "relabel_inplace": "C11", "subgraph": "C17",
         "compose": "C17", "deserialize": "C15", "enantiomer": "C06",
         "reverse": "C08", "reactant": "C08", "product": "C08",
         "from_graphs": "C08", "copy": "C10", "ctor": "C10",
         "stereoisomer": "C16"}


class World:
    def __init__(self, real=True, universe=(), known=None, max_slots=12,
                 check_all_every=8, record_hashes=False):
        self.slots: dict[int, Slot] = {}
        self.real_enabled = real
        self.universe = list(universe)
        self.violations: list[Violation] = []
        self.known_hits: list[Violation] = []
        self.known = known or (lambda v: False)
        self.stats = Counter()
        self.step_no = -1
        self.cur_op = None
        self.next_family = 0
        self.max_slots = max_slots
        self.check_all_every = check_all_every
        self.log = []            # event log (determinism / C03)
        self.record_hashes = record_hashes
        self.stopped = False
        self.nontarget_enabled = True
        self.slow = []
        if real:
            from . import real as R
            self.R = R
        else:
            self.R = None

    # ------------------------------------------------------------------
    def graph(self, s):
        sl = self.slots.get(s)
        if sl is None or sl.kind != "graph" or sl.tainted:
            return None
        return sl

    def graph_slots(self):
        return [s for s, sl in sorted(self.slots.items()) if sl.kind == "graph" and not sl.tainted]

    def report(self, props, sig, detail="", taint=()):
        v = Violation(props, sig, detail, self.step_no, self.cur_op)
        for s in taint:
            if s in self.slots:
                self.slots[s].tainted = True
        if self.known(v):
            self.known_hits.append(v)
            self.stats["known_hit"] += 1
        else:
            self.violations.append(v)
        return v

    def new_family(self):
        self.next_family += 1
        return self.next_family

    def put_graph(self, dst, m, real, prov, family):
        sl = Slot("graph", m, real, prov, family)
        self.slots[dst] = sl
        return sl

    # ------------------------------------------------------------------
    def blame(self, sl, default="C09"):
        """property owning a defect that shows on a slot during an ordinary
        edit: the latest derivation in its ancestry if a freshly built graph
        does not show it (differential control, DESIGN C11), else default"""
        for p in reversed(sl.prov):
            if p in BLAME and BLAME[p] != "C10":
                return BLAME[p]
        return default

    def coherent(self, s, props, opk, what="after"):
        """compare slot s with its model; report under props if they differ
        (props may be a zero-argument callable, evaluated only on failure).
        returns True when coherent"""
        if not self.real_enabled:
            return True
        sl = self.slots.get(s)
        if sl is None or sl.kind != "graph" or sl.tainted:
            return True
        R = self.R
        self.stats["snapshots"] += 1
        try:
            rv, problems = R.guarded(R.snapshot, sl.real, self.universe)
        except R.SnapError as e:
            cls = type(sl.real).__name__
            if callable(props):
                props = props()
            self.report(props, f"{opk}|{what}|unreadable:{e.field}:{type(e.exc).__name__}|{cls}",
                        str(e), taint=[s])
            return False
        except R.CallTimeout:
            if callable(props):
                props = props()
            self.report(props, f"{opk}|{what}|snapshot-hang|{type(sl.real).__name__}", "", taint=[s])
            return False
        mv = sl.model.view()
        diffs = R.diff_views(rv, mv)
        if diffs or problems:
            items = sorted(set(diffs) | set(problems))
            cls = type(sl.real).__name__
            if callable(props):
                props = props()
            detail = {"fields": items}
            for f in diffs[:3]:
                detail[f] = {"real": repr(rv.get(f))[:400], "model": repr(mv.get(f))[:400]}
            self.report(props, f"{opk}|{what}|{','.join(items)}|{cls}", json.dumps(detail, default=repr),
                        taint=[s])
            return False
        return True

    def check_others(self, targets, opk, force_all=False):
        """C10: every live graph that was not a target must still equal its
        (unchanged) model.  Family members every step, all slots periodically."""
        if not self.real_enabled or not self.nontarget_enabled:
            return
        fams = {self.slots[t].family for t in targets if t in self.slots}
        every = force_all or (self.step_no % self.check_all_every == 0)
        for s in self.graph_slots():
            if s in targets:
                continue
            sl = self.slots[s]
            if every or sl.family in fams:
                self.stats["nontarget_snapshots"] += 1
                self.coherent(s, {"C10"}, opk, what="non-target")

    # ------------------------------------------------------------------
    class ExpensiveInput(BaseException):
        pass

    HANG_BOUND = 20000

    def hang_not_judgeable(self):
        """a call that outlasts the confirmation budget is a hang only if the
        operands of the current operation leave a search little to do"""
        op = self.cur_op or {}
        ms = []
        refs = [op.get(f) for f in ("s", "s1", "s2", "g1", "g2", "src", "g", "r", "p", "ts")] + list(op.get("srcs") or [])
        for r in refs:
            sl = self.slots.get(r) if isinstance(r, int) else None
            if sl is None:
                continue
            if sl.kind == "graph" and sl.model is not None:
                ms.append(sl.model)
            for k in ("m1", "m2"):
                if isinstance(sl.data.get(k), model.RefGraph):
                    ms.append(sl.data[k])
        return any(m.search_bound() > self.HANG_BOUND or m.colouring_cost() > self.COLOUR_BOUND for m in ms)

    COLOUR_BOUND = 60000

    def too_costly_to_probe(self, op):
        """an atom of a stereo graph with nine or more neighbours and no
        oriented descriptor (composition of overlapping pieces gets there)
        costs 9! and more neighbour orders per colouring - correct, but
        minutes per call: such graphs are edited and derived from, not probed"""
        k = op["k"]
        if not (k in PROBE_KINDS or (k == "q" and op.get("q") in ("hash", "eq_self"))
                or k in ("deserialize",)):
            return False
        for f in ("s", "s1", "s2", "g1", "g2", "src"):
            sl = self.slots.get(op.get(f)) if isinstance(op.get(f), int) else None
            if sl is None:
                continue
            mm = sl.model if sl.kind == "graph" else sl.data.get("model")
            if isinstance(mm, RefGraph) and mm.colouring_cost() > self.COLOUR_BOUND:
                return True
        return False

    def run(self, ops, stop_on_violation=True):
        for i, op in enumerate(ops):
            self.step_no = i
            self.cur_op = op
            try:
                self.step(op)
            except self.ExpensiveInput:
                self.stopped = True
                break
            if stop_on_violation and self.violations:
                self.stopped = True
                break
            if any("|hang" in v.sig for v in self.violations[-2:]) or \
                    any("|hang" in v.sig for v in self.known_hits[-2:]):
                # a call that does not return within the confirmation budget:
                # nothing more can be learnt from this run at a sensible price
                self.stopped = True
                break
        return self.violations

    def step(self, op):
        if self.real_enabled:
            # every identifier reaches the library as its own object, as it
            # would from a parsed file (equal ids are not identical objects)
            op = json.loads(json.dumps(op))
            self.cur_op = op
        k = op["k"]
        if self.too_costly_to_probe(op):
            self.stats["probe_skipped:factorial-colouring"] += 1
            return None
        self.stats["op:" + k] += 1
        h = getattr(self, "op_" + k, None)
        if h is not None:
            return h(op)
        if k in model.MUTATORS:
            return self.op_mutator(op)
        from . import probes
        h = probes.HANDLERS.get(k)
        if h is None:
            raise KeyError(k)
        if self.real_enabled and k in PROBE_KINDS:
            # probes require coherent operands; an incoherence that no edit
            # of the operand itself explains is state shared with another graph
            for f in ("s", "s1", "s2", "g1", "g2", "src"):
                if f in op and not self.coherent(op[f], {"C10"}, "pre-probe", what="non-target"):
                    return
        return h(self, op)

    # ------------------------------------------------------------------
    # creation
    def op_new(self, op):
        dst = op["dst"]
        if dst in self.slots:
            return
        real = self.R.CLS[op["cls"]]() if self.real_enabled else None
        self.put_graph(dst, RefGraph(op["cls"]), real, [], self.new_family())
        self.coherent(dst, {"C09"}, "new")

    def op_bulk(self, op):
        """a large graph (hundreds of atoms) built in one step: chain / ring /
        sparse random skeleton, a few descriptors"""
        dst = op["dst"]
        if dst in self.slots or len(self.slots) >= self.max_slots:
            return
        rng = random.Random(op["seed"])
        kind, n = op["cls"], op["n"]
        m = RefGraph(kind)
        ids = list(range(op.get("base", 0), op.get("base", 0) + n * op.get("stride", 1), op.get("stride", 1)))
        rng.shuffle(ids)
        els = op.get("els", [6, 1])
        for a in ids:
            m.atoms[a] = {"atom_type": rng.choice(els)}
        deg = {a: 0 for a in ids}
        for i in range(1, n):
            j = rng.randrange(max(0, i - 4), i)
            x, y = ids[i], ids[j]
            if deg[x] < 4 and deg[y] < 4:
                m.bonds[B(x, y)] = {}
                deg[x] += 1
                deg[y] += 1
        for _ in range(n // 10):
            x, y = rng.sample(ids, 2)
            if B(x, y) not in m.bonds and deg[x] < 4 and deg[y] < 4:
                m.bonds[B(x, y)] = {"reaction": rng.choice(ROLES)} if m.is_reaction and rng.random() < 0.5 else {}
                deg[x] += 1
                deg[y] += 1
        style = op.get("style", "atom")
        if m.is_stereo and style in ("atom", "mixed"):
            nb = m.neighbours()
            for a in ids[::2]:
                if len(nb[a]) in (3, 4):
                    lig = sorted(nb[a]) + [None] * (4 - len(nb[a]))
                    rng.shuffle(lig)
                    m.astereo[a] = ("Tetrahedral", (a, *lig), rng.choice((1, -1)))
        if m.is_stereo and style in ("bond", "mixed"):
            # stereo that sits on bonds only (axes, double bonds)
            nb = m.neighbours()
            busy = set()
            for bd in sorted(m.bonds, key=lambda b: tuple(sorted(b)))[::3]:
                x, y = sorted(bd)
                if m.bonds[bd].get("reaction") or x in busy or y in busy or x in m.astereo or y in m.astereo:
                    continue
                lx, ly = sorted(nb[x] - {y}), sorted(nb[y] - {x})
                if not (1 <= len(lx) <= 2 and 1 <= len(ly) <= 2):
                    continue
                lx += [None] * (2 - len(lx))
                ly += [None] * (2 - len(ly))
                rng.shuffle(lx)
                rng.shuffle(ly)
                cls_ = rng.choice(("AtropBond", "PlanarBond"))
                m.bstereo[bd] = (cls_, (lx[0], lx[1], x, y, ly[0], ly[1]), rng.choice((1, -1)) if cls_ == "AtropBond" else 0)
                busy |= {x, y}
        real = None
        if self.real_enabled:
            R = self.R
            try:
                real = R.guarded(R.build, m, rng, None, budget=60)
            except Exception as e:  # noqa: BLE001
                self.report({"C09"}, f"bulk|build-raised:{type(e).__name__}|{model.CLASSNAME[kind]}", repr(e))
                return
        self.put_graph(dst, m, real, [], self.new_family())
        self.stats["bulk_graphs"] += 1
        self.stats["bulk_atoms_total"] += n
        self.coherent(dst, {"C09"}, "bulk")

    def op_spec(self, op):
        """a graph given as a whole (atoms, bonds with roles), built through
        the public mutators in one scheduler step"""
        dst = op["dst"]
        if dst in self.slots or len(self.slots) >= self.max_slots:
            return
        kind = op["cls"]
        m = RefGraph(kind)
        for a, z in op["atoms"]:
            m.atoms[a] = {"atom_type": z}
        for x, y, role in op["bonds"]:
            m.bonds[B(x, y)] = {"reaction": role} if (role and m.is_reaction) else {}
        if m.is_stereo:
            for d in op.get("astereo", ()):
                d = model.tuple_desc(d)
                m.astereo[d[1][0]] = d
        real = None
        if self.real_enabled:
            R = self.R
            try:
                real = R.guarded(R.build, m, None, None, budget=30)
            except Exception as e:  # noqa: BLE001
                self.report({"C09"}, f"spec|build-raised:{type(e).__name__}|{model.CLASSNAME[kind]}", repr(e))
                return
        sl = self.put_graph(dst, m, real, [], self.new_family())
        sl.data["reserved"] = bool(op.get("reserved"))
        self.coherent(dst, {"C09"}, "spec")

    def op_drop(self, op):
        sl = self.slots.get(op["s"])
        if sl is None or sl.locks:
            return
        if sl.kind == "gen":
            self._release(sl)
        del self.slots[op["s"]]

    def _release(self, gsl):
        for s in gsl.data.get("inputs", ()):
            if s in self.slots:
                self.slots[s].locks = max(0, self.slots[s].locks - 1)
        gsl.data["inputs"] = ()

    # ------------------------------------------------------------------
    def op_mutator(self, op):
        s = op["s"]
        sl = self.graph(s)
        if sl is None or sl.locks:
            self.stats["skipped"] += 1
            return
        m = sl.model
        verdict, payload = model.judge(m, op)
        k = op["k"]
        if verdict == "SKIP":
            self.stats["skipped"] += 1
            return
        self.stats[f"verdict:{verdict}"] += 1
        raised = None
        if self.real_enabled:
            R = self.R
            try:
                R.guarded(R.apply_mutator, sl.real, m.kind, op)
            except R.CallTimeout:
                self.report({self.blame(sl)}, f"{k}|hang|{type(sl.real).__name__}", "", taint=[s])
                return
            except Exception as e:  # noqa: BLE001
                raised = e
        cls = model.CLASSNAME[m.kind]
        self.log.append(("mut", self.step_no, k, verdict, type(raised).__name__ if raised is not None else None))
        if verdict == "OK":
            if raised is not None:
                prop = self.blame(sl)
                if prop != "C09" and self._fresh_also_fails(sl, op):
                    prop = "C09"
                self.report({prop}, f"{k}|well-formed-raised:{type(raised).__name__}|{cls}",
                            repr(raised), taint=[s])
                return
            pre = m.clone() if self.real_enabled else None
            payload()

            def props():
                prop = self.blame(sl)
                if prop != "C09" and self._fresh_also_incoherent(pre, sl.model, op):
                    prop = "C09"
                return {prop}
            self.coherent(s, props, k)
        elif verdict == "MUST":
            self.stats["fault:F1:" + payload] += 1
            if self.real_enabled and raised is None:
                self.report({"C19"}, f"{k}|accepted:{payload}|{cls}", "", taint=[s])
                return
            self.coherent(s, {"C19"}, k, what="rejected:" + payload)
        else:  # MAY
            self.stats["fault:may:" + payload] += 1
            if raised is not None:
                self.coherent(s, {"C19"}, k, what="rejected:" + payload)
            else:
                self.coherent(s, {"C09"}, k, what="no-op:" + payload)
        self.check_others({s}, k)

    def _fresh_also_fails(self, sl, op):
        """differential control for derived graphs: the same request against
        a graph freshly built from the (pre-operation) model"""
        R = self.R
        try:
            g = R.build(sl.model)
            R.guarded(R.apply_mutator, g, sl.model.kind, op)
            return False
        except R.CallTimeout:
            return True
        except Exception:  # noqa: BLE001
            return True

    def _fresh_also_incoherent(self, pre, post, op):
        R = self.R
        try:
            g = R.build(pre)
            R.guarded(R.apply_mutator, g, pre.kind, op)
            rv, problems = R.guarded(R.snapshot, g, self.universe)
            return bool(R.diff_views(rv, post.view()) or problems)
        except R.CallTimeout:
            return True
        except Exception:  # noqa: BLE001
            return True

    # ------------------------------------------------------------------
    # derivations
    def _derive(self, op, srcs, dst, mk_model, mk_real, kind, props, lenient=None,
                check_src=True):
        """common path: srcs (slot ids) -> new graph slot dst"""
        if dst in self.slots or len(self.slots) >= self.max_slots:
            self.stats["skipped"] += 1
            return None
        sls = [self.graph(s) for s in srcs]
        if any(x is None for x in sls):
            self.stats["skipped"] += 1
            return None
        m = mk_model(*[x.model for x in sls])
        if m is None:
            self.stats["skipped"] += 1
            return None
        fam = sls[0].family if sls else self.new_family()
        for x in sls[1:]:
            # merge alias families
            old = x.family
            for y in self.slots.values():
                if y.family == old:
                    y.family = fam
        prov = (sls[0].prov if sls else []) + [kind]
        real = None
        if self.real_enabled:
            R = self.R
            try:
                real = R.guarded(mk_real, *[x.real for x in sls])
            except R.CallTimeout:
                self.report(props, f"{kind}|hang|{model.CLASSNAME[m.kind]}", "")
                return None
            except Exception as e:  # noqa: BLE001
                self.report(props, f"{kind}|raised:{type(e).__name__}|{'+'.join(model.CLASSNAME[x.model.kind] for x in sls)}",
                            repr(e))
                return None
        sl = self.put_graph(dst, m, real, prov, fam)
        if self.real_enabled:
            if lenient is not None:
                lenient(sl)
            self.coherent(dst, props, kind, what="result")
            if check_src:
                for s in srcs:
                    self.coherent(s, props | {"C09"}, kind, what="source")
            self.check_others(set(srcs) | {dst}, kind)
        return sl

    def op_copy(self, op):
        self._derive(op, [op["src"]], op["dst"], lambda m: m.clone(),
                     lambda g: g.copy(), "copy", {"C10"})

    def op_ctor(self, op):
        kind = op["cls"]
        self._derive(op, [op["src"]], op["dst"], lambda m: model.convert(m, kind),
                     lambda g: self.R.CLS[kind](g), "ctor", {"C10"})

    def op_relabel(self, op):
        mapping = {int(a): int(b) for a, b in op["map"]}
        s = op["src"]
        sl = self.graph(s)
        if sl is None or not model.valid_relabel(sl.model, mapping):
            self.stats["skipped"] += 1
            return
        def arg():
            if not op.get("reuse"):
                return dict(mapping)
            # the caller keeps one dictionary and refills it for every call
            self.stats["fault:F3:mapping-dictionary-reused"] += 1
            if not hasattr(self, "_caller_map"):
                self._caller_map = {}
            self._caller_map.clear()
            self._caller_map.update(mapping)
            return self._caller_map
        if op.get("copy", True):
            self._derive(op, [s], op["dst"], lambda m: model.relabel(m, mapping),
                         lambda g: g.relabel_atoms(arg(), copy=True), "relabel", {"C11"})
            return
        # in place
        if sl.locks:
            self.stats["skipped"] += 1
            return
        newm = model.relabel(sl.model, mapping)
        if self.real_enabled:
            R = self.R
            try:
                ret = R.guarded(sl.real.relabel_atoms, arg(), copy=False)
            except R.CallTimeout:
                self.report({"C11"}, "relabel_inplace|hang|" + type(sl.real).__name__, "", taint=[s])
                return
            except Exception as e:  # noqa: BLE001
                self.report({"C11"}, f"relabel_inplace|raised:{type(e).__name__}|{type(sl.real).__name__}",
                            repr(e), taint=[s])
                return
            sl.model = newm
            sl.prov.append("relabel_inplace")
            if ret is not sl.real:
                # "gives the same labelled graph whether done in place or
                # into a copy": the returned object must be the same labelled
                # graph as well
                try:
                    rv, problems = R.snapshot(ret, self.universe)
                    d = R.diff_views(rv, newm.view())
                except Exception as e:  # noqa: BLE001
                    d, problems = ["unreadable:" + type(e).__name__], []
                if d or problems:
                    self.report({"C11"}, f"relabel_inplace|returned-object|{','.join(sorted(set(d) | set(problems)))}|{type(sl.real).__name__}",
                                "", taint=[s])
                    return
            self.coherent(s, {"C11"}, "relabel_inplace")
            self.check_others({s}, "relabel_inplace")
        else:
            sl.model = newm
            sl.prov.append("relabel_inplace")

    def op_subgraph(self, op):
        S = list(op["atoms"])
        how = op.get("as", "list")

        def mk_real(g):
            if how == "list":
                arg = list(S)
            elif how == "tuple":
                arg = tuple(S)
            elif how == "set":
                arg = set(S)
            elif how == "iter":
                arg = iter(list(S))
                self.stats["fault:F4:iterator"] += 1
            else:
                arg = (a for a in list(S))
                self.stats["fault:F4:generator"] += 1
            return g.subgraph(arg)

        def mk_model(m):
            if any(a not in m.atoms for a in S):
                return None
            if not m.buildable():
                return None   # orphan descriptor of a removed bond: not judged
            # an iterable may name an atom more than once
            return model.subgraph(m, list(dict.fromkeys(S)))
        self._derive(op, [op["src"]], op["dst"], mk_model, mk_real, "subgraph", {"C17"})

    def op_compose(self, op):
        kind = op["cls"]
        srcs = list(op["srcs"])
        how = op.get("as", "list")
        if len(set(srcs)) != len(srcs):
            return

        def mk_real(*gs):
            if how == "list":
                arg = list(gs)
            elif how == "tuple":
                arg = tuple(gs)
            else:
                arg = (g for g in gs)
                self.stats["fault:F4:generator"] += 1
            return self.R.CLS[kind].compose(arg)

        self._derive(op, srcs, op["dst"], lambda *ms: model.compose(kind, list(ms)),
                     mk_real, "compose", {"C17"})

    def op_restore_damaged(self, op):
        """F6: the stored text comes back damaged (a descriptor class name
        garbled, a list one entry short, the tail cut off).  What restoring
        such a text does is not judged and a result is thrown away; restoring
        intact texts afterwards is judged as always."""
        t = self.slots.get(op["src"])
        if t is None or t.kind != "text":
            self.stats["skipped"] += 1
            return
        how = op.get("how", "class")
        self.stats["fault:F6:damaged-text:" + how] += 1
        if not self.real_enabled or "text" not in t.data:
            return
        import re
        txt = t.data["text"]
        k = op.get("at", 0)
        if how == "class":
            hits = [mm for mm in re.finditer("|".join(geom.CLASSES), txt)]
            if hits:
                mm = hits[-1 - (k % len(hits))] if k % 2 else hits[-1]
                txt = txt[:mm.start()] + "Bogus" + txt[mm.end():]
        elif how == "short":
            hits = [mm for mm in re.finditer(r"\[(?:-?\d+|null)(?:, ?(?:-?\d+|null)){3,6}\]", txt)]
            if hits:
                mm = hits[-1 - (k % len(hits))] if k % 2 else hits[-1]
                inner = mm.group(0)[1:-1].split(",")
                txt = txt[:mm.start()] + "[" + ",".join(inner[:-1]) + "]" + txt[mm.end():]
        else:
            txt = txt[:max(1, len(txt) - 1 - k % max(1, len(txt) // 2))]
        R = self.R
        try:
            R.guarded(R.EXP.JSONHandler.json_deserialize, txt)
        except BaseException as e:  # noqa: BLE001
            if isinstance(e, (KeyboardInterrupt, SystemExit)):
                raise
        self.check_others(set(), "restore_damaged")

    def op_noise(self, op):
        """other parts of the library used earlier in the same process (XYZ
        text read, geometry written): results thrown away, nothing judged"""
        self.stats["fault:noise:" + op.get("what", "xyz")] += 1
        if not self.real_enabled:
            return
        R = self.R
        labels = op.get("labels") or ["C", "H"]

        def run():
            from stereomolgraph.coords import Geometry
            lines = [str(len(labels)), "noise"] + [f"{l} {i * 1.1:.3f} {(i % 3) * 0.7:.3f} {(i % 2) * 0.5:.3f}" for i, l in enumerate(labels)]
            geo = Geometry.from_xyz("\n".join(lines) + "\n")
            geo.xyz_str()
        try:
            R.guarded(run)
        except BaseException as e:  # noqa: BLE001
            if isinstance(e, (KeyboardInterrupt, SystemExit)):
                raise

    def op_bad_derive(self, op):
        """F1 for derivations: an ill-formed request (a list of pieces that
        contains something that is no graph, an unknown atom, a source that is
        no graph).  Whatever the call does - raise, as a rule - is not judged
        and its result is thrown away; the graphs it was given must be left
        alone, and every later operation is judged as usual (a derivation that
        fails half way must not leave anything behind in the process)."""
        srcs = [s for s in op.get("srcs", []) if self.graph(s) is not None]
        what = op["what"]
        self.stats["fault:F1:derivation:" + what] += 1
        if not self.real_enabled or not srcs:
            return
        R = self.R
        cls = R.CLS[op["cls"]]
        reals = [self.slots[s].real for s in srcs]
        junk = {"none": None, "int": 7, "str": "C"}[op.get("junk", "none")]

        def call():
            if what == "compose":
                parts = list(reals)
                parts.insert(op.get("pos", 0) % (len(parts) + 1), junk)
                return cls.compose(parts)
            if what == "ctor":
                return cls(junk)
            if what == "subgraph":
                ats = list(reals[0].atoms)
                return reals[0].subgraph(ats[:2] + [op.get("unknown", 10 ** 9)])
            if what == "from_graphs":
                return cls.from_graphs(reals[0], junk)
            return None
        try:
            R.guarded(call)
        except BaseException as e:  # noqa: BLE001
            if isinstance(e, (KeyboardInterrupt, SystemExit)):
                raise
        for s in srcs:
            self.coherent(s, {"C10"}, "bad_derive:" + what, what="source")
        self.check_others(set(srcs), "bad_derive")

    def op_enantiomer(self, op):
        def mk_model(m):
            return model.enantiomer(m) if m.is_stereo else None
        self._derive(op, [op["src"]], op["dst"], mk_model, lambda g: g.enantiomer(),
                     "enantiomer", {"C06"})

    def op_reverse(self, op):
        def mk_model(m):
            if not m.is_reaction or not m.buildable():
                return None   # orphan change of a removed bond: not judged
            return model.reverse(m)

        def lenient(sl):
            # attributes of swapped bonds: C08 is silent; follow the real object
            try:
                bwa = {frozenset(b): dict(at) for b, at in sl.real.bonds_with_attributes.items()}
            except Exception:  # noqa: BLE001
                return
            for b, at in sl.model.bonds.items():
                if at.get("reaction") in ("FORMED", "BROKEN") and b in bwa:
                    real_at = {k: self.R.conv_attr_out(k, v) for k, v in bwa[b].items()}
                    if real_at.get("reaction") == at["reaction"]:
                        sl.model.bonds[b] = real_at
        self._derive(op, [op["src"]], op["dst"], mk_model, lambda g: g.reverse_reaction(),
                     "reverse", {"C08"}, lenient=lenient)

    def _side(self, op, which, kind):
        keep = op.get("keep", True)

        def mk_model(m):
            if not m.is_reaction or not m.role_consistent():
                return None
            return model.side(m, which, keep)

        def mk_real(g):
            # optionally after the graph has been hashed / compared, which
            # builds reactant, product and transition structure internally
            if op.get("after") == "hash":
                hash(g)
            elif op.get("after") == "eq":
                g == g      # noqa: B015
            fn = g.reactant if which == "R" else g.product
            return fn(keep_attributes=keep)
        self._derive(op, [op["src"]], op["dst"], mk_model, mk_real, kind, {"C08"})

    def op_reactant(self, op):
        self._side(op, "R", "reactant")

    def op_product(self, op):
        self._side(op, "P", "product")

    def op_from_graphs(self, op):
        kind = op["cls"]
        srcs = [op["r"], op["p"]] + ([op["ts"]] if op.get("ts") is not None else [])
        if len(set(srcs)) != len(srcs):
            return

        def mk_model(R_, P_, TS_=None):
            need = "SMG" if kind == "SCRG" else None
            for x in (R_, P_, TS_):
                if x is None:
                    continue
                if need and x.kind != need:
                    return None
                if x.kind not in ("MG", "SMG"):
                    return None
            types = lambda x: {a: v["atom_type"] for a, v in x.atoms.items()}
            if types(R_) != types(P_) or not R_.atoms:
                return None
            if TS_ is not None:
                if types(TS_) != types(R_):
                    return None
                if not (set(R_.bonds) | set(P_.bonds)) <= set(TS_.bonds):
                    return None
            trace = []
            out = model.from_graphs(kind, R_, P_, TS_, trace)
            for t_ in trace:
                self.stats["from_graphs:" + t_] += 1
            self.stats["from_graphs:" + ("with-ts" if TS_ is not None else "without-ts")] += 1
            return out

        def mk_real(r, p, ts=None):
            return self.R.CLS[kind].from_graphs(r, p, ts)

        ms = [self.graph(s) for s in srcs]
        if any(x is None for x in ms):
            return
        inputs = [x.model for x in ms]

        def lenient(sl):
            # representation is implementation defined: judge observables
            from . import probes
            probes.check_from_graphs(self, sl, inputs, op)
        self._derive(op, srcs, op["dst"], mk_model, mk_real, "from_graphs", {"C08"},
                     lenient=lenient)

    # ------------------------------------------------------------------
    # persistence
    def op_serialize(self, op):
        sl = self.graph(op["src"])
        dst = op["dst"]
        if sl is None or dst in self.slots or len(self.slots) >= self.max_slots:
            return
        t = Slot("text")
        t.data["model"] = sl.model.clone()
        if self.real_enabled:
            R = self.R
            try:
                txt = R.guarded(R.EXP.JSONHandler.json_serialize, sl.real)
            except R.CallTimeout:
                self.report({"C15"}, "serialize|hang|" + type(sl.real).__name__, "")
                return
            except Exception as e:  # noqa: BLE001
                self.report({"C15"}, f"serialize|raised:{type(e).__name__}|{type(sl.real).__name__}", repr(e))
                return
            mode = op.get("reencode")
            if mode:
                self.stats["fault:F6:reencode"] += 1
                obj = json.loads(txt)
                if mode == "sort":
                    txt = json.dumps(obj, sort_keys=True)
                elif mode == "indent":
                    txt = json.dumps(obj, indent=2)
                elif mode == "compact":
                    txt = json.dumps(obj, separators=(",", ":"), ensure_ascii=False)
            t.data["text"] = txt
            self.coherent(op["src"], {"C09"}, "serialize", what="source")
            m0 = sl.model
            if m0.atoms and m0.sane() and m0.fully_specified() and m0.buildable():
                # what the object itself answered at the moment it was saved
                try:
                    t.data["hash_at_save"] = R.guarded(hash, sl.real)
                except BaseException as e:  # noqa: BLE001
                    if isinstance(e, (KeyboardInterrupt, SystemExit)):
                        raise
        self.slots[dst] = t

    def op_deserialize(self, op):
        t = self.slots.get(op["src"])
        dst = op["dst"]
        if t is None or t.kind != "text" or dst in self.slots or len(self.slots) >= self.max_slots:
            return
        full = t.data["model"]
        m = project_json(full)
        real = None
        if self.real_enabled:
            R = self.R
            try:
                real = R.guarded(R.EXP.JSONHandler.json_deserialize, t.data["text"])
            except R.CallTimeout:
                self.report({"C15"}, "deserialize|hang|" + model.CLASSNAME[m.kind], "")
                return
            except Exception as e:  # noqa: BLE001
                if not full.buildable():
                    # orphan descriptor of a removed bond: cannot be restored
                    # through the public mutators (not judged)
                    self.stats["deserialize:unbuildable-rejected"] += 1
                    return
                self.report({"C15"}, f"deserialize|raised:{type(e).__name__}|{model.CLASSNAME[m.kind]}", repr(e))
                return
        self.stats["fault:F6:restore"] += 1
        self.put_graph(dst, m, real, ["deserialize"], self.new_family())
        if self.real_enabled:
            if self.coherent(dst, {"C15"}, "deserialize", what="result") and full.sane():
                from . import probes
                n0 = len(self.violations) + len(self.known_hits)
                probes.check_roundtrip_equal(self, dst, full)
                if "hash_at_save" in t.data and n0 == len(self.violations) + len(self.known_hits):
                    try:
                        h = R.guarded(hash, real)
                    except BaseException as e:  # noqa: BLE001
                        if isinstance(e, (KeyboardInterrupt, SystemExit)):
                            raise
                        h = None
                    if h is not None and h != t.data["hash_at_save"]:
                        # the saved object and the restored one are equal graphs
                        self.report({"C15", "C03"}, "deserialize|hash-differs-from-the-saved-object|" + model.CLASSNAME[m.kind],
                                    f"{t.data['hash_at_save']} {h}")
                    else:
                        self.stats["roundtrip_hash_vs_saved_object_checked"] += 1


def project_json(m: RefGraph) -> RefGraph:
    """what the JSON format carries: atoms with elements, bonds with roles,
    descriptors, changes"""
    g = RefGraph(m.kind)
    g.atoms = {a: {"atom_type": v["atom_type"]} for a, v in m.atoms.items()}
    for b, v in m.bonds.items():
        g.bonds[b] = {"reaction": v["reaction"]} if (m.is_reaction and v.get("reaction") in ROLES) else {}
    g.astereo = dict(m.astereo)
    g.bstereo = dict(m.bstereo)
    g.achange = {a: dict(t) for a, t in m.achange.items() if t}
    g.bchange = {b: dict(t) for b, t in m.bchange.items() if t}
    return g
