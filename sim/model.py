"""Reference model (DESIGN 3.4): plain dicts, sets and tuples.

A descriptor is ``(class_name, atoms_tuple, parity)``; a bond is a
``frozenset`` of two atom ids; a role is one of 'FORMED', 'BROKEN',
'FLEETING' and is stored as the bond attribute ``"reaction"``.
"""
from __future__ import annotations

import copy

from . import geom

KINDS = ("MG", "SMG", "CRG", "SCRG")
CLASSNAME = {"MG": "MolGraph", "SMG": "StereoMolGraph",
             "CRG": "CondensedReactionGraph",
             "SCRG": "StereoCondensedReactionGraph"}
KIND_OF = {v: k for k, v in CLASSNAME.items()}
ROLES = ("BROKEN", "FLEETING", "FORMED")
STEREO_KINDS = ("SMG", "SCRG")
REACTION_KINDS = ("CRG", "SCRG")

SYMBOLS = None  # filled lazily from the library's table (pure data)


def _sym():
    global SYMBOLS
    if SYMBOLS is None:
        # atomic numbers and symbols are data, not behaviour under test
        SYMBOLS = {
            1: 'H', 2: 'He', 3: 'Li', 4: 'Be', 5: 'B', 6: 'C', 7: 'N', 8: 'O',
            9: 'F', 10: 'Ne', 11: 'Na', 12: 'Mg', 13: 'Al', 14: 'Si', 15: 'P',
            16: 'S', 17: 'Cl', 18: 'Ar', 19: 'K', 20: 'Ca', 26: 'Fe', 29: 'Cu',
            35: 'Br', 53: 'I', 78: 'Pt',
        }
    return SYMBOLS


def element(t):
    """normalise an accepted atom type to Z, or None if it is no element.
    Only the palette used by the generator plus the range check is known to
    the model; everything else is 'not generated'."""
    sym = _sym()
    if isinstance(t, bool):
        return None
    if isinstance(t, int):
        return t if 1 <= t <= 118 else None
    if isinstance(t, str):
        for z, s in sym.items():
            if t in (s, s.upper(), s.lower()):
                return z
        return None
    return None


def B(a, b):
    return frozenset((a, b))


class RefGraph:
    __slots__ = ("kind", "atoms", "bonds", "astereo", "bstereo", "achange",
                 "bchange")

    def __init__(self, kind):
        assert kind in KINDS
        self.kind = kind
        self.atoms: dict = {}      # id -> {attr: value}, has 'atom_type': Z
        self.bonds: dict = {}      # frozenset -> {attr: value}
        self.astereo: dict = {}    # id -> desc
        self.bstereo: dict = {}    # bond -> desc
        self.achange: dict = {}    # id -> {role: desc}
        self.bchange: dict = {}    # bond -> {role: desc}

    # ------------------------------------------------------------------
    def clone(self):
        g = RefGraph(self.kind)
        g.atoms = {a: dict(v) for a, v in self.atoms.items()}
        g.bonds = {b: dict(v) for b, v in self.bonds.items()}
        g.astereo = dict(self.astereo)
        g.bstereo = dict(self.bstereo)
        g.achange = {a: dict(v) for a, v in self.achange.items()}
        g.bchange = {b: dict(v) for b, v in self.bchange.items()}
        return g

    @property
    def is_stereo(self):
        return self.kind in STEREO_KINDS

    @property
    def is_reaction(self):
        return self.kind in REACTION_KINDS

    @property
    def has_changes(self):
        return self.kind == "SCRG"

    def sorted_atoms(self):
        return sorted(self.atoms)

    def sorted_bonds(self):
        return sorted((tuple(sorted(b)) for b in self.bonds))

    def nbrs(self, a):
        out = set()
        for b in self.bonds:
            if a in b:
                out |= b - {a}
        return out

    def neighbours(self):
        n = {a: set() for a in self.atoms}
        for b in self.bonds:
            x, y = tuple(b)
            n[x].add(y)
            n[y].add(x)
        return n

    def search_bound(self):
        """upper bound on the number of complete candidate assignments of any
        label-respecting backtracking search on this graph: the product of
        the factorials of the (element, degree) class sizes"""
        import math
        n = self.neighbours()
        cnt = {}
        for a, at in self.atoms.items():
            k = (at.get("atom_type"), len(n[a]))
            cnt[k] = cnt.get(k, 0) + 1
        out = 1
        for c in cnt.values():
            out *= math.factorial(c)
            if out > 10 ** 12:
                break
        return out

    def colouring_cost(self):
        """colour refinement of the stereo classes walks through all deg!
        neighbour orders of every atom that has no oriented descriptor: the
        sum of these factorials (0 for the plain classes)"""
        import math
        if not self.is_stereo:
            return 0
        n = self.neighbours()
        cost = 0
        for a in self.atoms:
            d = self.astereo.get(a)
            if d is not None and d[2] is not None:
                continue
            k = len(n[a])
            if k >= 5:
                cost += math.factorial(min(k, 15))
        return cost

    def role(self, bond):
        return self.bonds[bond].get("reaction")

    def bonds_by_role(self, role):
        return {b for b, at in self.bonds.items() if at.get("reaction") == role}

    def components(self):
        n = self.neighbours()
        seen, out = set(), []
        for a in self.sorted_atoms():
            if a in seen:
                continue
            comp, stack = set(), [a]
            while stack:
                x = stack.pop()
                if x in comp:
                    continue
                comp.add(x)
                stack.extend(n[x] - comp)
            seen |= comp
            out.append(comp)
        return out

    def all_descs(self):
        """every descriptor stored anywhere: (where, key, role, desc)"""
        for a, d in self.astereo.items():
            yield ("astereo", a, None, d)
        for b, d in self.bstereo.items():
            yield ("bstereo", b, None, d)
        for a, t in self.achange.items():
            for r, d in t.items():
                yield ("achange", a, r, d)
        for b, t in self.bchange.items():
            for r, d in t.items():
                yield ("bchange", b, r, d)

    def sane(self):
        """every descriptor atom (non placeholder) is an atom of the graph
        and every descriptor sits under its own centre"""
        for where, key, _r, d in self.all_descs():
            if geom.centre(d) != key:
                return False
            for x in geom.desc_atoms(d):
                if x not in self.atoms:
                    return False
            if where in ("bstereo", "bchange") and (len(key) != 2 or key not in self.bonds):
                return False
        return self.role_consistent()

    def role_consistent(self):
        """a bond-centred change descriptor sits on a bond that exists on its
        side of the reaction (BROKEN: reactant, FORMED: product); otherwise
        reactant()/product() - and with them == and hash - have no meaning
        and the pinned implementation raises"""
        ok = {"BROKEN": (None, "BROKEN"), "FORMED": (None, "FORMED"),
              "FLEETING": (None, "BROKEN", "FORMED", "FLEETING")}
        for b, t in self.bchange.items():
            if b not in self.bonds:
                return False
            br = self.bonds[b].get("reaction")
            for r in t:
                if br not in ok[r]:
                    return False
        return True

    def buildable(self):
        """can be rebuilt through the public mutators: every descriptor sits
        on an existing centre (remove_bond keeps the bond's descriptor)"""
        return (all(b in self.bonds for b in self.bstereo)
                and all(b in self.bonds for b in self.bchange)
                and all(a in self.atoms for a in self.astereo)
                and all(a in self.atoms for a in self.achange))

    def faithful(self):
        """every atom-centred descriptor names exactly the bonded neighbours
        of its centre - on every side (reactant, product, transition
        structure) of a reaction graph.  The library's colour refinement
        takes the neighbourhood of such an atom from the descriptor alone,
        so on other graphs bonds and bond roles can be invisible to it
        (known finding KF-unfaithful-stereo)."""
        if not self.is_stereo:
            return True
        sides = [self] if not self.is_reaction else [side(self, w) for w in ("R", "P", "TS")]
        for g in sides:
            n = g.neighbours()
            for a, d in g.astereo.items():
                if a not in n or {x for x in d[1][1:] if x is not None} != n[a]:
                    return False
        return True

    def fully_specified(self):
        return all(d[2] is not None for *_x, d in self.all_descs())

    def stereo_valid(self):
        """descriptor ligands are exactly bonded neighbours (chemically
        meaningful graph); used only to bias generation / select probes"""
        if not self.sane():
            return False
        for where, key, _r, d in self.all_descs():
            if where in ("astereo", "achange"):
                for x in d[1][1:]:
                    if x is not None and B(key, x) not in self.bonds:
                        return False
            else:
                a = d[1]
                if B(a[2], a[3]) not in self.bonds:
                    return False
                for x, c in ((a[0], a[2]), (a[1], a[2]), (a[4], a[3]), (a[5], a[3])):
                    if x is not None and B(x, c) not in self.bonds:
                        return False
        return True

    # ------------------------------------------------------------------
    # canonical, hashable view used for comparison with the real object
    def view(self):
        v = {
            "class": CLASSNAME[self.kind],
            "atoms": sorted(self.atoms),
            "atom_attrs": {a: tuple(sorted(at.items())) for a, at in self.atoms.items()},
            "bonds": self.sorted_bonds(),
            "bond_attrs": {tuple(sorted(b)): tuple(sorted(at.items()))
                           for b, at in self.bonds.items()},
            "neighbors": {a: tuple(sorted(n)) for a, n in self.neighbours().items() if n},
            "components": sorted(tuple(sorted(c)) for c in self.components()),
        }
        if self.is_stereo:
            v["astereo"] = {a: geom.canon(d) for a, d in self.astereo.items()}
            v["bstereo"] = {tuple(sorted(b)): geom.canon(d) for b, d in self.bstereo.items()}
        if self.is_reaction:
            for r in ROLES:
                v[r.lower()] = sorted(tuple(sorted(b)) for b in self.bonds_by_role(r))
        if self.has_changes:
            v["achange"] = {a: {r: geom.canon(d) for r, d in t.items()}
                            for a, t in self.achange.items() if t}
            v["bchange"] = {tuple(sorted(b)): {r: geom.canon(d) for r, d in t.items()}
                            for b, t in self.bchange.items() if t}
        return v

    def digest_tuple(self):
        v = self.view()
        def fz(x):
            if isinstance(x, dict):
                return tuple(sorted(((k, fz(y)) for k, y in x.items()), key=repr))
            if isinstance(x, (list, tuple)):
                return tuple(fz(y) for y in x)
            return x
        return fz(v)


# ----------------------------------------------------------------------
# derivations on the model

def convert(src: RefGraph, kind: str) -> RefGraph:
    """copy-construction Cls(src): keeps what the target class can hold"""
    g = RefGraph(kind)
    g.atoms = {a: dict(v) for a, v in src.atoms.items()}
    g.bonds = {b: dict(v) for b, v in src.bonds.items()}
    if g.is_stereo and src.is_stereo:
        g.astereo = dict(src.astereo)
        g.bstereo = dict(src.bstereo)
    if g.has_changes and src.has_changes:
        g.achange = {a: dict(v) for a, v in src.achange.items()}
        g.bchange = {b: dict(v) for b, v in src.bchange.items()}
    return g


def relabel(src: RefGraph, mapping: dict) -> RefGraph:
    f = lambda a: mapping.get(a, a)
    fb = lambda b: frozenset(f(x) for x in b)
    g = RefGraph(src.kind)
    g.atoms = {f(a): dict(v) for a, v in src.atoms.items()}
    g.bonds = {fb(b): dict(v) for b, v in src.bonds.items()}
    g.astereo = {f(a): geom.map_desc(d, f) for a, d in src.astereo.items()}
    g.bstereo = {fb(b): geom.map_desc(d, f) for b, d in src.bstereo.items()}
    g.achange = {f(a): {r: geom.map_desc(d, f) for r, d in t.items()}
                 for a, t in src.achange.items()}
    g.bchange = {fb(b): {r: geom.map_desc(d, f) for r, d in t.items()}
                 for b, t in src.bchange.items()}
    return g


def valid_relabel(src: RefGraph, mapping: dict) -> bool:
    """keys are atoms of the graph, induced map on the atom set injective"""
    if any(k not in src.atoms for k in mapping):
        return False
    img = [mapping.get(a, a) for a in src.atoms]
    return len(set(img)) == len(img)


def subgraph(src: RefGraph, S) -> RefGraph:
    S = set(S)
    g = RefGraph(src.kind)
    g.atoms = {a: dict(v) for a, v in src.atoms.items() if a in S}
    g.bonds = {b: dict(v) for b, v in src.bonds.items() if b <= S}
    inside = lambda d: all(x in S for x in geom.desc_atoms(d))
    g.astereo = {a: d for a, d in src.astereo.items() if inside(d)}
    g.bstereo = {b: d for b, d in src.bstereo.items() if inside(d)}
    # a stereo change is kept when all atoms of all its descriptors lie in S
    for a, t in src.achange.items():
        if t and all(inside(d) for d in t.values()):
            g.achange[a] = dict(t)
    for b, t in src.bchange.items():
        if t and all(inside(d) for d in t.values()):
            g.bchange[b] = dict(t)
    return g


def compose(kind: str, parts: list) -> RefGraph:
    g = RefGraph(kind)
    for p in parts:
        for a, v in p.atoms.items():
            g.atoms[a] = dict(v)
        for b, v in p.bonds.items():
            g.bonds[b] = dict(v)
        if g.is_stereo and p.is_stereo:
            g.astereo.update(p.astereo)
            g.bstereo.update(p.bstereo)
        if g.has_changes and p.has_changes:
            for a, t in p.achange.items():
                g.achange[a] = dict(t)
            for b, t in p.bchange.items():
                g.bchange[b] = dict(t)
    return g


def enantiomer(src: RefGraph) -> RefGraph:
    g = src.clone()
    g.astereo = {a: geom.invert(d) for a, d in src.astereo.items()}
    g.bstereo = {b: geom.invert(d) for b, d in src.bstereo.items()}
    g.achange = {a: {r: geom.invert(d) for r, d in t.items()} for a, t in src.achange.items()}
    g.bchange = {b: {r: geom.invert(d) for r, d in t.items()} for b, t in src.bchange.items()}
    return g


_SWAP = {"FORMED": "BROKEN", "BROKEN": "FORMED", "FLEETING": "FLEETING"}


def reverse(src: RefGraph) -> RefGraph:
    g = src.clone()
    for b, at in g.bonds.items():
        r = at.get("reaction")
        if r in ("FORMED", "BROKEN"):
            # the pinned implementation re-adds the bond, dropping its other
            # attributes; C08 is silent about attributes (compared leniently)
            g.bonds[b] = {"reaction": _SWAP[r]}
    g.achange = {a: {_SWAP[r]: d for r, d in t.items()} for a, t in src.achange.items()}
    g.bchange = {b: {_SWAP[r]: d for r, d in t.items()} for b, t in src.bchange.items()}
    return g


def side(src: RefGraph, which: str, keep_attributes=True) -> RefGraph:
    """reactant ('R'), product ('P') or transition structure ('TS')"""
    gone = {"R": ("FORMED", "FLEETING"), "P": ("BROKEN", "FLEETING"), "TS": ()}[which]
    over = {"R": "BROKEN", "P": "FORMED", "TS": "FLEETING"}[which]
    g = RefGraph("SMG" if src.is_stereo else "MG")
    for a, v in src.atoms.items():
        g.atoms[a] = dict(v) if keep_attributes else {"atom_type": v["atom_type"]}
    for b, v in src.bonds.items():
        if v.get("reaction") in gone:
            continue
        at = dict(v) if keep_attributes else {}
        at.pop("reaction", None)
        g.bonds[b] = at
    if src.is_stereo:
        g.astereo = dict(src.astereo)
        g.bstereo = dict(src.bstereo)
        for a, t in src.achange.items():
            if over in t:
                g.astereo[a] = t[over]
        for b, t in src.bchange.items():
            if over in t:
                g.bstereo[b] = t[over]
    return g


def from_graphs(kind: str, R: RefGraph, P: RefGraph, TS, trace=None) -> RefGraph:
    """model of Cls.from_graphs following the pinned case analysis with the
    geometric descriptor relation.  The representation (static vs. change)
    is implementation defined; the executor compares observables (C08) and
    adopts the real representation if it differs."""
    g = RefGraph(kind)
    for a, v in R.atoms.items():
        g.atoms[a] = {"atom_type": v["atom_type"]}
    rb, pb = set(R.bonds), set(P.bonds)
    for b in rb | pb:
        if b in rb and b in pb:
            g.bonds[b] = {}
        elif b in rb:
            g.bonds[b] = {"reaction": "BROKEN"}
        else:
            g.bonds[b] = {"reaction": "FORMED"}
    if TS is not None:
        for b in TS.bonds:
            if b not in g.bonds:
                g.bonds[b] = {"reaction": "FLEETING"}
    if kind != "SCRG":
        return g
    eq = geom.same
    for a in g.atoms:
        r = R.astereo.get(a)
        p = P.astereo.get(a)
        t = TS.astereo.get(a) if TS is not None else None
        br = None
        if t is not None and r is not None and p is not None and eq(t, r) and eq(r, p):
            g.astereo[a] = t
            br = "atom:ts=r=p"
        elif t is not None and not (p is not None and eq(t, p)) and not (r is not None and eq(t, r)):
            ch = {"FLEETING": t}
            if p is not None:
                ch["FORMED"] = p
            if r is not None:
                ch["BROKEN"] = r
            g.achange[a] = ch
            br = "atom:ts-differs-from-both"
        elif r is not None and p is not None and eq(r, p):
            g.astereo[a] = r
            br = "atom:r=p"
        elif r is None and p is not None:
            g.achange[a] = {"FORMED": p}
            br = "atom:only-p"
        elif p is None and r is not None:
            g.achange[a] = {"BROKEN": r}
            br = "atom:only-r"
        elif r is not None and p is not None:
            g.achange[a] = {"FORMED": p, "BROKEN": r}
            br = "atom:r!=p" + (":class-change" if r[0] != p[0] else "")
        if trace is not None and br:
            trace.append(br)
    for b in g.bonds:
        r = R.bstereo.get(b) if b in R.bonds else None
        p = P.bstereo.get(b) if b in P.bonds else None
        br = None
        if r is not None and p is not None and eq(r, p):
            g.bstereo[b] = r
            br = "bond:r=p"
        elif r is None and p is not None:
            g.bchange[b] = {"FORMED": p}
            br = "bond:only-p"
        elif p is None and r is not None:
            g.bchange[b] = {"BROKEN": r}
            br = "bond:only-r"
        elif r is not None and p is not None:
            g.bchange[b] = {"FORMED": p, "BROKEN": r}
            br = "bond:r!=p"
        if trace is not None and br:
            trace.append(br + (":" + str(g.bonds[b].get("reaction")).lower() if br else ""))
    return g


# ----------------------------------------------------------------------
# primitive mutators on the model.  Each returns one of
#   ("OK", effect)    well formed: effect() applies the change
#   ("MUST", why)     C19 lists this shape: must raise, nothing changes
#   ("MAY", why)      statements silent: may raise; nothing changes either way
# ``effect`` is a zero-argument callable mutating the model.

def _desc_ok(d):
    return (isinstance(d, (tuple, list)) and len(d) == 3 and d[0] in geom.CLASSES
            and len(d[1]) == geom.NPOS[d[0]])


def judge(m: RefGraph, op: dict):
    k = op["k"]
    A = m.atoms
    if k == "add_atom":
        z = element(op["t"])
        if z is None:
            return ("MUST", "atom type is no element")
        def eff():
            A[op["a"]] = {"atom_type": z, **op.get("kw", {})}
        return ("OK", eff)
    if k == "remove_atom":
        a = op["a"]
        if a not in A:
            return ("MUST", "unknown atom")
        def eff():
            del A[a]
            for b in [b for b in m.bonds if a in b]:
                del m.bonds[b]
            for x in [x for x, d in m.astereo.items() if a in d[1]]:
                del m.astereo[x]
            for x in [x for x, d in m.bstereo.items() if a in d[1]]:
                del m.bstereo[x]
            for tab in (m.achange, m.bchange):
                for x in list(tab):
                    for r in [r for r, d in tab[x].items() if a in d[1]]:
                        del tab[x][r]
                    if not tab[x]:
                        del tab[x]
        return ("OK", eff)
    if k in ("add_bond", "add_formed_bond", "add_broken_bond", "add_fleeting_bond"):
        a, b = op["a"], op["b"]
        kw = dict(op.get("kw", {}))
        if a not in A or b not in A:
            return ("MUST", "unknown atom")
        if a == b:
            return ("MUST", "self bond")
        if k != "add_bond":
            if not m.is_reaction:
                return ("SKIP", "no such method")
            kw["reaction"] = {"add_formed_bond": "FORMED", "add_broken_bond": "BROKEN",
                              "add_fleeting_bond": "FLEETING"}[k]
        elif m.is_reaction and "reaction" in kw and kw["reaction"] not in ROLES:
            return ("MUST", "reaction label of the wrong type")
        def eff():
            m.bonds[B(a, b)] = kw
        return ("OK", eff)
    if k == "remove_bond":
        bd = B(op["a"], op["b"])
        if bd not in m.bonds:
            return ("MUST", "unknown bond")
        def eff():
            del m.bonds[bd]
        return ("OK", eff)
    if k == "set_atom_attr":
        a, key, val = op["a"], op["key"], op["val"]
        if a not in A:
            return ("MUST", "unknown atom")
        if key == "atom_type":
            z = element(val)
            if z is None:
                return ("MUST", "atom type is no element")
            val = z
        def eff():
            A[a][key] = val
        return ("OK", eff)
    if k == "del_atom_attr":
        a, key = op["a"], op["key"]
        if a not in A:
            return ("MUST", "unknown atom")
        if key == "atom_type":
            return ("MUST", "element attribute deleted")
        if key not in A[a]:
            return ("MAY", "attribute not set")
        def eff():
            del A[a][key]
        return ("OK", eff)
    if k == "set_bond_attr":
        bd = B(op["a"], op["b"])
        key, val = op["key"], op["val"]
        if bd not in m.bonds or len(bd) != 2:
            return ("MUST", "unknown bond")
        if m.is_reaction and key == "reaction" and val not in ROLES:
            return ("MUST", "reaction label of the wrong type")
        def eff():
            m.bonds[bd][key] = val
        return ("OK", eff)
    if k == "del_bond_attr":
        bd = B(op["a"], op["b"])
        key = op["key"]
        if bd not in m.bonds or len(bd) != 2:
            return ("MUST", "unknown bond")
        if key not in m.bonds[bd]:
            return ("MAY", "attribute not set")
        def eff():
            del m.bonds[bd][key]
        return ("OK", eff)
    # ---------------- stereo
    if k in ("set_astereo", "del_astereo", "set_bstereo", "del_bstereo") and not m.is_stereo:
        return ("SKIP", "no such method")
    if k == "set_astereo":
        d = tuple_desc(op["d"])
        c = d[1][0]
        if c not in A:
            return ("MUST", "descriptor centred on unknown atom")
        def eff():
            m.astereo[c] = d
        return ("OK", eff)
    if k == "del_astereo":
        a = op["a"]
        if a not in m.astereo:
            return ("MAY", "nothing stored")
        def eff():
            del m.astereo[a]
        return ("OK", eff)
    if k == "set_bstereo":
        d = tuple_desc(op["d"])
        bd = frozenset((d[1][2], d[1][3]))
        if len(bd) != 2 or bd not in m.bonds:
            return ("MUST", "descriptor centred on unknown bond")
        def eff():
            m.bstereo[bd] = d
        return ("OK", eff)
    if k == "del_bstereo":
        bd = B(op["a"], op["b"])
        if bd not in m.bstereo:
            return ("MAY", "nothing stored")
        def eff():
            del m.bstereo[bd]
        return ("OK", eff)
    # ---------------- stereo changes
    if k in ("set_achange", "set_bchange", "del_achange", "del_bchange") and not m.has_changes:
        return ("SKIP", "no such method")
    if k in ("set_achange", "set_bchange"):
        given = {r: tuple_desc(op[r.lower()]) for r in ROLES if op.get(r.lower()) is not None}
        if not given:
            return ("MAY", "no descriptor given")
        cs = {geom.centre(d) for d in given.values()}
        if len(cs) != 1:
            return ("MUST", "several centres at once")
        c = cs.pop()
        if k == "set_achange":
            if c not in A:
                return ("MUST", "change centred on unknown atom")
            def eff():
                m.achange[c] = dict(given)
        else:
            if len(c) != 2 or c not in m.bonds:
                return ("MUST", "change centred on unknown bond")
            def eff():
                m.bchange[c] = dict(given)
        return ("OK", eff)
    if k in ("del_achange", "del_bchange"):
        tab = m.achange if k == "del_achange" else m.bchange
        c = op["a"] if k == "del_achange" else B(op["a"], op["b"])
        role = op.get("role")
        if c not in tab or (role is not None and role not in tab[c]):
            return ("MAY", "nothing stored")
        def eff():
            if role is None:
                del tab[c]
            else:
                del tab[c][role]
                if not tab[c]:
                    del tab[c]
        return ("OK", eff)
    raise KeyError(k)


def tuple_desc(d):
    if d is None:
        return None
    return (d[0], tuple(d[1]), d[2])


def list_desc(d):
    if d is None:
        return None
    return [d[0], list(d[1]), d[2]]


MUTATORS = ("add_atom", "remove_atom", "add_bond", "add_formed_bond",
            "add_broken_bond", "add_fleeting_bond", "remove_bond",
            "set_atom_attr", "del_atom_attr", "set_bond_attr", "del_bond_attr",
            "set_astereo", "del_astereo", "set_bstereo", "del_bstereo",
            "set_achange", "set_bchange", "del_achange", "del_bchange")


# ----------------------------------------------------------------------
# signatures for C16

def atom_signature(m: RefGraph, bonds=None):
    """multiset of (element, sorted neighbour elements)"""
    n = {a: [] for a in m.atoms}
    for b in (m.bonds if bonds is None else bonds):
        x, y = tuple(b)
        n[x].append(m.atoms[y]["atom_type"])
        n[y].append(m.atoms[x]["atom_type"])
    return tuple(sorted((m.atoms[a]["atom_type"], tuple(sorted(n[a]))) for a in m.atoms))


def reaction_signature(m: RefGraph):
    r = [b for b, at in m.bonds.items() if at.get("reaction") in (None, "BROKEN")]
    p = [b for b, at in m.bonds.items() if at.get("reaction") in (None, "FORMED")]
    t = list(m.bonds)
    return (atom_signature(m, r), atom_signature(m, p), atom_signature(m, t))


def signature(m: RefGraph):
    if m.is_reaction:
        return reaction_signature(m)
    return atom_signature(m)
