"""Geometric descriptor model (DESIGN 3.5).

Descriptor identity is derived from idealised coordinates, never from the
library's PERMUTATION_GROUP tables.  A descriptor is the plain tuple
``(class_name, atoms_tuple, parity)``.
"""
from __future__ import annotations

import itertools
import math

import numpy as np

ATOM_CLASSES = ("Tetrahedral", "SquarePlanar", "TrigonalBipyramidal", "Octahedral")
BOND_CLASSES = ("PlanarBond", "AtropBond")
CLASSES = ATOM_CLASSES + BOND_CLASSES
CHIRAL = {"Tetrahedral": True, "SquarePlanar": False,
          "TrigonalBipyramidal": True, "Octahedral": True,
          "PlanarBond": False, "AtropBond": True}
NPOS = {"Tetrahedral": 5, "SquarePlanar": 5, "TrigonalBipyramidal": 6,
        "Octahedral": 7, "PlanarBond": 6, "AtropBond": 6}


def _figures():
    c3 = [(math.cos(a), math.sin(a), 0.0) for a in (0.0, 2 * math.pi / 3, 4 * math.pi / 3)]
    sq = [(1.0, 0.0, 0.0), (0.0, 1.0, 0.0), (-1.0, 0.0, 0.0), (0.0, -1.0, 0.0)]
    th = math.radians(90.0)  # D2d figure: sign of the dihedral is the parity
    fig = {
        "Tetrahedral": [(0, 0, 0), (1, 1, 1), (1, -1, -1), (-1, 1, -1), (-1, -1, 1)],
        "SquarePlanar": [(0, 0, 0)] + sq,
        "TrigonalBipyramidal": [(0, 0, 0), (0, 0, 1.3), (0, 0, -1.3)] + c3,
        "Octahedral": [(0, 0, 0), (0, 0, 1.0), (0, 0, -1.0)] + sq,
        # 0,1 on atom 2 ; 4,5 on atom 3 ; 0 cis to 4
        "PlanarBond": [(-1.2, 1, 0), (-1.2, -1, 0), (-0.5, 0, 0), (0.5, 0, 0),
                       (1.2, 1, 0), (1.2, -1, 0)],
        "AtropBond": [(-1.2, 1, 0), (-1.2, -1, 0), (-0.5, 0, 0), (0.5, 0, 0),
                      (1.2, math.cos(th), math.sin(th)),
                      (1.2, -math.cos(th), -math.sin(th))],
    }
    return {k: np.array(v, dtype=float) for k, v in fig.items()}


FIGURES = _figures()


def _fit(P, Q, want_det):
    """Best orthogonal R with det R == want_det minimising |R P_i - Q_i|."""
    H = P.T @ Q
    U, S, Vt = np.linalg.svd(H)
    d = np.sign(np.linalg.det(Vt.T @ U.T))
    D = np.diag([1.0, 1.0, d * want_det])
    R = Vt.T @ D @ U.T
    res = np.abs((R @ P.T).T - Q).max()
    return res


def _classify(name):
    X = FIGURES[name]
    X = X - X.mean(axis=0)
    n = len(X)
    proper, improper = set(), set()
    if name in ATOM_CLASSES:
        cands = ((0,) + p for p in itertools.permutations(range(1, n)))
    else:
        cands = itertools.permutations(range(n))
    for p in cands:
        Q = X[list(p)]
        # position i of the new ordering holds what was at position p[i]
        if _fit(X, Q, +1) < 1e-6:
            proper.add(tuple(p))
        if _fit(X, Q, -1) < 1e-6:
            improper.add(tuple(p))
    return frozenset(proper), frozenset(improper)


PROPER: dict[str, frozenset] = {}
IMPROPER: dict[str, frozenset] = {}
for _n in CLASSES:
    PROPER[_n], IMPROPER[_n] = _classify(_n)
del _n


def _k(x):
    return (1, 0) if x is None else (0, x)


def _key(t):
    return tuple(_k(x) for x in t)


def apply(atoms, perm):
    return tuple(atoms[i] for i in perm)


def centre(desc):
    """central atom, or frozenset bond, of a descriptor"""
    cls, atoms, _ = desc
    if cls in ATOM_CLASSES:
        return atoms[0]
    return frozenset((atoms[2], atoms[3]))


def is_atom_desc(desc):
    return desc[0] in ATOM_CLASSES


def orbit(desc):
    """All (atoms, parity) writings that denote the same arrangement
    (specified parity only)."""
    cls, atoms, par = desc
    assert par is not None
    out = set()
    for p in PROPER[cls]:
        out.add((apply(atoms, p), par))
    for p in IMPROPER[cls]:
        out.add((apply(atoms, p), -par if par else 0))
    return out


def canon(desc):
    """Canonical form; equal canon <=> same spatial arrangement.

    parity None: class + centre + which ligand sits on which end is kept,
    ligand order is not (an unspecified descriptor carries no order).
    """
    if desc is None:
        return None
    cls, atoms, par = desc
    atoms = tuple(atoms)
    if par is None:
        if cls in ATOM_CLASSES:
            return (cls, (atoms[0],) + tuple(sorted(atoms[1:], key=_k)), None)
        e1 = (atoms[2], tuple(sorted(atoms[0:2], key=_k)))
        e2 = (atoms[3], tuple(sorted(atoms[4:6], key=_k)))
        a, b = sorted((e1, e2), key=lambda e: (_k(e[0]), _key(e[1])))
        return (cls, (a[1][0], a[1][1], a[0], b[0], b[1][0], b[1][1]), None)
    best = min(orbit((cls, atoms, par)), key=lambda ap: (_key(ap[0]), ap[1]))
    return (cls, best[0], best[1])


def same(d1, d2):
    """geometric identity for fully specified descriptors; for None parity
    the (deliberately non transitive) rule of C04: same class over the same
    atom multiset"""
    if d1 is None or d2 is None:
        return d1 is None and d2 is None
    if d1[2] is None or d2[2] is None:
        return d1[0] == d2[0] and sorted(d1[1], key=_k) == sorted(d2[1], key=_k)
    return canon(d1) == canon(d2)


def invert(desc):
    cls, atoms, par = desc
    if par in (1, -1):
        return (cls, tuple(atoms), -par)
    return (cls, tuple(atoms), par)


def random_rewrite(desc, rng):
    """another writing of the same arrangement, uniformly from the orbit"""
    cls, atoms, par = desc
    if par is None:
        return (cls, tuple(atoms), None)
    orb = sorted(orbit(desc), key=lambda ap: (_key(ap[0]), ap[1]))
    a, p = orb[rng.randrange(len(orb))]
    return (cls, a, p)


def map_desc(desc, f):
    cls, atoms, par = desc
    return (cls, tuple(None if a is None else f(a) for a in atoms), par)


def desc_atoms(desc):
    return [a for a in desc[1] if a is not None]


def selftest():
    exp = {"Tetrahedral": 12, "SquarePlanar": 8, "TrigonalBipyramidal": 6,
           "Octahedral": 24, "PlanarBond": 4, "AtropBond": 4}
    for c in CLASSES:
        assert len(PROPER[c]) == exp[c], (c, len(PROPER[c]))
        # groups: closed under composition
        for p in PROPER[c]:
            for q in PROPER[c]:
                assert apply(p, q) in PROPER[c]
        if CHIRAL[c]:
            assert len(IMPROPER[c]) == exp[c] and not (PROPER[c] & IMPROPER[c]), c
            for p in IMPROPER[c]:
                for q in IMPROPER[c]:
                    assert apply(p, q) in PROPER[c]
        else:
            assert PROPER[c] == IMPROPER[c], c
    return True


if __name__ == "__main__":
    selftest()
    for c in CLASSES:
        print(c, len(PROPER[c]), len(IMPROPER[c]))
    print(sorted(PROPER["AtropBond"]))
