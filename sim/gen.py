"""Seeded generator of concrete operation lists (DESIGN 3.2).

Consults only the PRNG and the reference model (a model-only World), never
the library under test: a seed denotes the same history on every tree.
"""
from __future__ import annotations

import random

from . import geom, model
from .model import B, ROLES, RefGraph
from .world import World

ELEMENT_FORMS = {1: [1, "H", "h"], 6: [6, "C", "c"], 7: [7, "N", "n"], 8: [8, "O", "o"],
                 9: [9, "F", "f"], 17: [17, "Cl", "CL", "cl"], 35: [35, "Br", "BR", "br"],
                 15: [15, "P"], 16: [16, "S", "s"], 78: [78, "Pt", "PT", "pt"], 26: [26, "Fe", "FE"]}
BAD_TYPES = ["Xx", 0, 119, None, -1, "", "carbon", 6.5, "cL", "nA", "hE", "bR", "fE", " C", "6", "C1", "H2", "O3", "X", "D"]
BAD_ROLES = ["formed", "FORMED", 1, None, "x", 0, "", False]
ATTR_KEYS = ["charge", "label", "x"]
ATTR_VALS = [0, 1, -1, "a", "b", 2]
BATTR_KEYS = ["bond_order", "note"]

PROFILES = {}


def profile(name, **kw):
    base = dict(
        classes=("MG", "SMG", "CRG", "SCRG"), max_atoms=(3, 9), steps=(30, 90),
        callers=(1, 3), small=False, check_all_every=16, nontarget=True,
        tx=dict(edit=6, query=3, derive_edit=0, relabel=0, twin=0, pair=0, mutant=0,
                enum=0, enant=0, react=0, persist=0, algebra=0, faults=0, flip=0,
                isomers=0, symnum=0, wlpair=0, large=0, hubs=0, copies=0, dense=0, changeshare=0, known=0, treepair=0, religand=0, exchange=0, build=1),
        fault_rate=(0.0, 0.15),
    )
    tx = dict(base["tx"])
    tx.update(kw.pop("tx", {}))
    base.update(kw)
    base["tx"] = tx
    PROFILES[name] = base


profile("C09", tx=dict(edit=8, query=5, relabel=1, derive_edit=1, persist=0, large=0.08, dense=0.5, religand=1, build=1), steps=(30, 120))
profile("C19", tx=dict(edit=6, query=2, faults=4, relabel=1, build=1), steps=(30, 90), fault_rate=(0.05, 0.3))
profile("C10", tx=dict(edit=3, query=1, derive_edit=8, relabel=1, react=1, persist=1, algebra=2, isomers=1, changeshare=3, build=1),
        nontarget=True, check_all_every=4, callers=(2, 4))
profile("C11", tx=dict(edit=3, query=2, relabel=8, twin=1, derive_edit=1, algebra=1, large=0.06, build=1))
profile("C01", tx=dict(edit=4, query=1, twin=8, relabel=1, derive_edit=1, large=0.08, hubs=0.2, copies=1, build=2), max_atoms=(1, 12))
profile("C03", tx=dict(edit=4, query=2, twin=8, pair=1, derive_edit=1, algebra=1, large=0.08, hubs=0.2, copies=0.5, build=2), max_atoms=(1, 12))
profile("C02", tx=dict(edit=4, pair=5, mutant=6, derive_edit=2, wlpair=5, treepair=4, exchange=1, large=0.3, build=2), small=True, max_atoms=(2, 8))
profile("C05", tx=dict(edit=3, enum=8, symnum=2, derive_edit=2, wlpair=4, copies=1, build=2), small=True, max_atoms=(2, 13),
        callers=(2, 4))
profile("C06", tx=dict(edit=3, enant=6, derive_edit=2, build=2), small=True, max_atoms=(2, 7),
        classes=("SMG", "SCRG"))
profile("C08", tx=dict(edit=2, react=8, derive_edit=2, build=1), classes=("MG", "SMG", "CRG", "SCRG"), max_atoms=(3, 8))
profile("C15", tx=dict(edit=5, persist=8, query=1, relabel=1, derive_edit=1, large=0.1, build=2))
profile("C16", tx=dict(edit=3, pair=4, mutant=4, flip=4, isomers=4, react=2, hubs=0.5, known=0.15, exchange=2, large=0.3, build=3), small=True, max_atoms=(2, 8),
        callers=(2, 3))
profile("C17", tx=dict(edit=4, algebra=8, query=1, large=0.08, dense=0.5, build=2), max_atoms=(3, 14))


def make_config(rng, prof_name, tier):
    p = PROFILES[prof_name]
    style = rng.choice(("dense", "dense", "sparse", "negative", "huge", "mixed", "dense", "sparse", "negative", "huge", "mixed", "pow32"))
    n_ids = rng.randint(p["max_atoms"][0] + 1, p["max_atoms"][1] + 2)
    if style == "dense":
        ids = list(range(n_ids))
    elif style == "sparse":
        ids = [(i % 4) * 8 + (i // 4) * 3 for i in range(n_ids)]
    elif style == "negative":
        ids = [i - n_ids // 2 for i in range(n_ids)]
    elif style == "huge":
        ids = [2 ** 40 + i * 7 for i in range(n_ids)]
    elif style == "pow32":
        ids = [(i % 2) * 2 ** 32 + i // 2 for i in range(n_ids)]     # 0, 2^32, 1, 2^32+1, ...
    else:
        ids = sorted(rng.sample(range(-5, 40), n_ids))
    ids = list(dict.fromkeys(ids))
    n_el = rng.choice((1, 2, 2, 3, 4, 5))
    pool = [6, 1, 8, 7, 9, 17, 35]
    els = pool[:2] if n_el == 2 and rng.random() < 0.5 else rng.sample(pool, n_el)
    if rng.random() < 0.15:
        els.append(rng.choice((78, 26, 15, 16)))
    classes = list(p["classes"])
    if rng.random() < 0.5 and len(classes) > 1:
        classes = rng.sample(classes, rng.randint(1, len(classes)))
    steps = rng.randint(*p["steps"])
    if tier == "thorough":
        steps = int(steps * rng.choice((1, 1.5, 2.5)))
    placeholders = rng.choice((0.0, 0.0, 0.2, 0.5))
    if placeholders and rng.random() < 0.35:
        # small negative identifiers next to placeholders
        ids = [i - n_ids // 2 for i in range(n_ids)]
    cfg = dict(
        profile=prof_name, ids=ids, elements=els, classes=sorted(classes),
        steps=steps, callers=rng.randint(*p["callers"]),
        max_atoms=rng.randint(*p["max_atoms"]),
        fault_rate=rng.uniform(*p["fault_rate"]) if rng.random() < 0.8 else 0.0,
        desc_density=rng.choice((0.0, 0.3, 0.6, 1.0)),
        none_parity=rng.choice((0.0, 0.0, 0.1, 0.3)),
        placeholders=placeholders,
        invalid_desc=rng.choice((0.0, 0.0, 0.1)),
        desc_classes=sorted(rng.sample(geom.CLASSES, rng.randint(1, 6))),
        attr_rate=rng.choice((0.0, 0.2, 0.5)),
        motif_bias=rng.choice(("any", "any", "star", "ring", "chain", "ez", "random")),
        nontarget=p["nontarget"], check_all_every=p["check_all_every"],
        tx={k: v * rng.choice((0, 1, 1, 1, 2)) if k not in ("build", "edit") else v
            for k, v in p["tx"].items()},
        max_slots=rng.randint(4, 10),
        # eight-coordinate atoms without a descriptor cost 8! permutations per
        # colouring (0.15 s): rare in the quick tier
        hypervalent=(prof_name in ("C01", "C03") and rng.random() < (0.03 if tier == "thorough" else 0.006)),
    )
    if cfg["hypervalent"]:
        cfg["steps"] = min(cfg["steps"], 24)   # every colouring costs 8! permutations
        cfg["callers"] = 1
    # the profile's own speciality is never switched off
    top = max(p["tx"], key=lambda k: p["tx"][k])
    cfg["tx"][top] = max(cfg["tx"][top], p["tx"][top])
    if prof_name == "C06":
        cfg["desc_density"] = rng.choice((0.6, 1.0, 1.0))
        if len(cfg["elements"]) < 3 and rng.random() < 0.7:
            cfg["elements"] = rng.sample(pool, rng.choice((3, 4, 5)))
        cfg["motif_bias"] = rng.choice(("any", "star", "tetra4", "ez", "random"))
    if p["small"] or prof_name in ("C01", "C03"):
        cfg["none_parity"] = rng.choice((0.0, 0.0, 0.0, 0.15)) if prof_name not in ("C16",) else cfg["none_parity"]
    return cfg


class Gen:
    def __init__(self, seed, prof_name, tier="quick"):
        self.rng = random.Random(seed)
        self.tier = tier
        self.cfg = make_config(self.rng, prof_name, tier)
        self.w = World(real=False, universe=self.cfg["ids"], max_slots=self.cfg["max_slots"])
        self.ops = []
        self.next_slot = 0

    # ------------------------------------------------------------------
    def emit(self, op):
        self.w.step_no = len(self.ops)
        self.w.cur_op = op
        self.w.step(op)
        self.ops.append(op)

    def slot_id(self):
        self.next_slot += 1
        return self.next_slot - 1

    def graphs(self, kinds=None, unlocked=False, nonempty=False):
        out = []
        for s in self.w.graph_slots():
            sl = self.w.slots[s]
            if sl.data.get("reserved"):
                continue   # planted by a transaction that keeps it to itself
            if kinds and sl.model.kind not in kinds:
                continue
            if unlocked and sl.locks:
                continue
            if nonempty and not sl.model.atoms:
                continue
            out.append(s)
        return out

    def room(self):
        return len(self.w.slots) < self.w.max_slots

    def el(self):
        z = self.rng.choice(self.cfg["elements"])
        return self.rng.choice(ELEMENT_FORMS[z])

    def kw(self, keys=ATTR_KEYS):
        if self.rng.random() < self.cfg["attr_rate"]:
            return {self.rng.choice(keys): self.rng.choice(ATTR_VALS)}
        return {}

    def absent_atom(self, m):
        c = [a for a in self.cfg["ids"] if a not in m.atoms]
        if c and self.rng.random() < 0.8:
            return self.rng.choice(c)
        return max(list(m.atoms) + self.cfg["ids"]) + self.rng.randint(1, 5)

    def present_atom(self, m):
        return self.rng.choice(m.sorted_atoms()) if m.atoms else None

    def present_bond(self, m):
        return self.rng.choice(m.sorted_bonds()) if m.bonds else None

    def absent_bond(self, m):
        ats = m.sorted_atoms()
        free = [(x, y) for i, x in enumerate(ats) for y in ats[i + 1:] if B(x, y) not in m.bonds]
        if free and self.rng.random() < 0.7:
            return self.rng.choice(free)
        a = self.present_atom(m)
        b = self.absent_atom(m)
        if a is None:
            return (b, b + 1)
        return (a, b) if self.rng.random() < 0.5 else (b, a)

    # ------------------------------------------------------------------
    # descriptors
    def parity_for(self, cls, allow_none=True):
        if allow_none and self.rng.random() < self.cfg["none_parity"]:
            return None
        return self.rng.choice((1, -1)) if geom.CHIRAL[cls] else 0

    def atom_desc(self, m, cls=None, centre=None, allow_none=True):
        """stereo-valid atom descriptor if the graph offers a site"""
        rng = self.rng
        n = m.neighbours()
        classes = [c for c in self.cfg["desc_classes"] if c in geom.ATOM_CLASSES] if cls is None else [cls]
        if not classes:
            return None
        sites = []
        for a in m.sorted_atoms() if centre is None else [centre]:
            deg = len(n.get(a, ()))
            for c in classes:
                need = geom.NPOS[c] - 1
                holes = need - deg
                if holes == 0 or (0 < holes <= 2 and rng.random() < self.cfg["placeholders"]):
                    sites.append((a, c, holes))
        if not sites:
            return None
        a, c, holes = rng.choice(sites)
        lig = sorted(n[a]) + [None] * holes
        rng.shuffle(lig)
        return (c, (a, *lig), self.parity_for(c, allow_none))

    def bond_desc(self, m, cls=None, bond=None, allow_none=True):
        rng = self.rng
        n = m.neighbours()
        classes = [c for c in self.cfg["desc_classes"] if c in geom.BOND_CLASSES] if cls is None else [cls]
        if not classes:
            return None
        sites = []
        for x, y in m.sorted_bonds() if bond is None else [tuple(sorted(bond))]:
            lx = sorted(n[x] - {y})
            ly = sorted(n[y] - {x})
            if len(lx) > 2 or len(ly) > 2:
                continue
            holes = (2 - len(lx)) + (2 - len(ly))
            if len(lx) == 0 or len(ly) == 0:
                continue
            if holes == 0 or rng.random() < self.cfg["placeholders"]:
                sites.append((x, y, lx, ly))
        if not sites:
            return None
        x, y, lx, ly = rng.choice(sites)
        if rng.random() < 0.5:
            x, y, lx, ly = y, x, ly, lx
        lx = lx + [None] * (2 - len(lx))
        ly = ly + [None] * (2 - len(ly))
        rng.shuffle(lx)
        rng.shuffle(ly)
        c = rng.choice(classes)
        return (c, (lx[0], lx[1], x, y, ly[0], ly[1]), self.parity_for(c, allow_none))

    def wild_desc(self, m, atom_centred, centre_present=True, dangling=False):
        """descriptor whose ligands need not be neighbours (or atoms at all)"""
        rng = self.rng
        pool = m.sorted_atoms()
        if dangling or len(pool) < 9:
            base = max(list(m.atoms) + self.cfg["ids"]) + 1
            pool = pool + [base + i for i in range(9)]
        if atom_centred:
            c = rng.choice(geom.ATOM_CLASSES)
            centre = self.present_atom(m) if centre_present and m.atoms else self.absent_atom(m)
            lig = [x for x in pool if x != centre]
            rng.shuffle(lig)
            return (c, (centre, *lig[:geom.NPOS[c] - 1]), self.parity_for(c))
        c = rng.choice(geom.BOND_CLASSES)
        if centre_present and m.bonds:
            x, y = self.present_bond(m)
        else:
            x, y = self.absent_bond(m)
        lig = [z for z in pool if z not in (x, y)]
        rng.shuffle(lig)
        return (c, (lig[0], lig[1], x, y, lig[2], lig[3]), self.parity_for(c))

    # ------------------------------------------------------------------
    # one random well-formed-ish mutator on slot s
    def rand_mutator(self, s):
        rng = self.rng
        if self.w.graph(s) is None:
            return dict(k="q", s=s, q="len")
        m = self.w.slots[s].model
        faulty = rng.random() < self.cfg["fault_rate"]
        choices = ["add_atom"] * 3 + ["add_bond"] * 4 + ["remove_atom", "remove_bond",
                                                          "set_atom_attr", "del_atom_attr",
                                                          "set_bond_attr", "del_bond_attr", "readd_atom"]
        if m.is_stereo:
            choices += ["set_astereo"] * 3 + ["set_bstereo"] * 2 + ["del_astereo", "del_bstereo"]
        if m.is_reaction:
            choices += ["add_formed_bond", "add_broken_bond", "add_fleeting_bond", "set_role", "add_bond_role"]
        if m.has_changes:
            choices += ["set_achange"] * 2 + ["set_bchange"] * 2 + ["del_achange", "del_bchange"]
        if len(m.atoms) >= self.cfg["max_atoms"]:
            choices = [c for c in choices if c != "add_atom"] + ["remove_atom"]
        if len(m.atoms) < 2:
            choices += ["add_atom"] * 6
        k = rng.choice(choices)
        if faulty:
            op = self.faulty_mutator(s, m, k)
            if op is not None:
                return op
        a = self.present_atom(m)
        if k == "add_atom" or a is None:
            return dict(k="add_atom", s=s, a=self.absent_atom(m), t=self.el(), kw=self.kw())
        if k == "readd_atom":
            return dict(k="add_atom", s=s, a=a, t=self.el(), kw=self.kw())
        if k == "remove_atom":
            return dict(k="remove_atom", s=s, a=a)
        if k in ("add_bond", "add_formed_bond", "add_broken_bond", "add_fleeting_bond", "add_bond_role"):
            if len(m.atoms) < 2:
                return dict(k="add_atom", s=s, a=self.absent_atom(m), t=self.el(), kw=self.kw())
            ats = m.sorted_atoms()
            nb = m.neighbours()
            cap = 6 if m.is_stereo else 8   # colouring cost is factorial in the degree
            free = [(x, y) for i, x in enumerate(ats) for y in ats[i + 1:]
                    if B(x, y) not in m.bonds and len(nb[x]) < cap and len(nb[y]) < cap]
            if free and rng.random() < 0.85:
                x, y = rng.choice(free)
            else:
                x, y = rng.sample(ats, 2)
                if B(x, y) not in m.bonds and (len(nb[x]) >= cap or len(nb[y]) >= cap):
                    return dict(k="q", s=s, q="len")
            if rng.random() < 0.5:
                x, y = y, x
            kw = self.kw(BATTR_KEYS)
            if k == "add_bond_role":
                kw["reaction"] = rng.choice(ROLES)
                k = "add_bond"
            return dict(k=k, s=s, a=x, b=y, kw=kw)
        if k == "remove_bond":
            b = self.present_bond(m)
            if b is None:
                return dict(k="add_atom", s=s, a=self.absent_atom(m), t=self.el(), kw=self.kw())
            x, y = b if rng.random() < 0.5 else (b[1], b[0])
            return dict(k="remove_bond", s=s, a=x, b=y)
        if k == "set_atom_attr":
            if rng.random() < 0.3:
                return dict(k=k, s=s, a=a, key="atom_type", val=self.el())
            if m.is_reaction and rng.random() < 0.2:
                # reaction classes compare this atom attribute in ==
                return dict(k=k, s=s, a=a, key="reaction", val=rng.choice(("centre", 1)))
            return dict(k=k, s=s, a=a, key=rng.choice(ATTR_KEYS), val=rng.choice(ATTR_VALS))
        if k == "del_atom_attr":
            keys = sorted(x for x in m.atoms[a] if x != "atom_type")
            key = rng.choice(keys) if keys and rng.random() < 0.8 else rng.choice(ATTR_KEYS)
            return dict(k=k, s=s, a=a, key=key)
        b = self.present_bond(m)
        if k in ("set_bond_attr", "del_bond_attr", "set_role"):
            if b is None:
                return dict(k="add_atom", s=s, a=self.absent_atom(m), t=self.el(), kw=self.kw())
            x, y = b if rng.random() < 0.5 else (b[1], b[0])
            if k == "set_role":
                return dict(k="set_bond_attr", s=s, a=x, b=y, key="reaction", val=rng.choice(ROLES))
            if k == "set_bond_attr":
                return dict(k=k, s=s, a=x, b=y, key=rng.choice(BATTR_KEYS), val=rng.choice(ATTR_VALS))
            keys = sorted(m.bonds[B(x, y)])
            key = rng.choice(keys) if keys and rng.random() < 0.8 else rng.choice(BATTR_KEYS)
            return dict(k=k, s=s, a=x, b=y, key=key)
        inval = rng.random() < self.cfg["invalid_desc"]
        if k == "set_astereo":
            d = None if inval else self.atom_desc(m)
            if d is None:
                d = self.wild_desc(m, True, dangling=inval and rng.random() < 0.3) if (inval or rng.random() < 0.15) else None
            if d is None:
                return self.grow(s, m)
            return dict(k=k, s=s, d=model.list_desc(d))
        if k == "set_bstereo":
            d = None if inval else self.bond_desc(m)
            if rng.random() < 0.12:
                # the one coincidence between the descriptor families: the six
                # atoms of a trigonal bipyramid, in the same order and with the
                # same parity, read as an axis over the bond of its 3rd and 4th
                tb = [t for t in list(m.astereo.values()) + [x for tab in m.achange.values() for x in tab.values()]
                      if t[0] == "TrigonalBipyramidal" and t[2] is not None and t[1][2] is not None and t[1][3] is not None
                      and B(t[1][2], t[1][3]) in m.bonds]
                if tb:
                    t = tb[rng.randrange(len(tb))]
                    d = ("AtropBond", tuple(t[1]), t[2])
                    if m.has_changes and rng.random() < 0.5:
                        br = m.bonds[B(t[1][2], t[1][3])].get("reaction")
                        role = {None: rng.choice(ROLES), "BROKEN": "BROKEN", "FORMED": "FORMED", "FLEETING": "FLEETING"}[br]
                        op = dict(k="set_bchange", s=s, broken=None, fleeting=None, formed=None)
                        op[role.lower()] = model.list_desc(d)
                        return op
            if d is None and m.bonds and (inval or rng.random() < 0.15):
                d = self.wild_desc(m, False, dangling=inval and rng.random() < 0.3)
            if d is None:
                return self.grow(s, m)
            return dict(k=k, s=s, d=model.list_desc(d))
        if k == "del_astereo":
            c = sorted(m.astereo)
            return dict(k=k, s=s, a=rng.choice(c) if c and rng.random() < 0.85 else a)
        if k == "del_bstereo":
            c = sorted(tuple(sorted(x)) for x in m.bstereo)
            bb = rng.choice(c) if c and rng.random() < 0.85 else (b or (a, a + 1))
            return dict(k=k, s=s, a=bb[0], b=bb[1])
        if k in ("set_achange", "set_bchange"):
            return self.change_op(s, m, k) or self.grow(s, m)
        if k == "del_achange":
            c = sorted(m.achange)
            x = rng.choice(c) if c and rng.random() < 0.85 else a
            role = None
            if rng.random() < 0.6:
                have = sorted(m.achange.get(x, {}))
                role = rng.choice(have) if have and rng.random() < 0.85 else rng.choice(ROLES)
            return dict(k=k, s=s, a=x, role=role)
        if k == "del_bchange":
            c = sorted(tuple(sorted(x)) for x in m.bchange)
            bb = rng.choice(c) if c and rng.random() < 0.85 else (b or (a, a + 1))
            role = None
            if rng.random() < 0.6:
                have = sorted(m.bchange.get(B(*bb), {}))
                role = rng.choice(have) if have and rng.random() < 0.85 else rng.choice(ROLES)
            return dict(k=k, s=s, a=bb[0], b=bb[1], role=role)
        return dict(k="add_atom", s=s, a=self.absent_atom(m), t=self.el(), kw=self.kw())

    def grow(self, s, m):
        """no site for a descriptor: grow the graph instead"""
        rng = self.rng
        if len(m.atoms) >= 2 and rng.random() < 0.6:
            ats = m.sorted_atoms()
            nb = m.neighbours()
            free = [(x, y) for i, x in enumerate(ats) for y in ats[i + 1:]
                    if B(x, y) not in m.bonds and len(nb[x]) < 6 and len(nb[y]) < 6]
            if free:
                x, y = rng.choice(free)
                return dict(k="add_bond", s=s, a=x, b=y, kw={})
        return dict(k="add_atom", s=s, a=self.absent_atom(m), t=self.el(), kw=self.kw())

    def change_op(self, s, m, k):
        rng = self.rng
        roles = rng.sample(ROLES, rng.randint(1, 3))
        op = dict(k=k, s=s, broken=None, fleeting=None, formed=None)
        first = self.atom_desc(m) if k == "set_achange" else self.bond_desc(m)
        if first is None:
            if rng.random() < 0.3 and m.atoms and (k == "set_achange" or m.bonds):
                first = self.wild_desc(m, k == "set_achange")
            else:
                return None
        centre = geom.centre(first)
        if k == "set_bchange" and centre in m.bonds and rng.random() < 0.9:
            # roles that exist on the bond's side of the reaction
            br = m.bonds[centre].get("reaction")
            allowed = {None: ROLES, "BROKEN": ("BROKEN", "FLEETING"), "FORMED": ("FORMED", "FLEETING"),
                       "FLEETING": ("FLEETING",)}.get(br, ROLES)
            roles = [r for r in roles if r in allowed] or [rng.choice(allowed)]
        for i, r in enumerate(roles):
            if i == 0:
                d = first
            elif rng.random() < 0.2:
                d = first          # the very same descriptor under a second role
            elif rng.random() < 0.15:
                # the same atom tuple read as another class, parity unspecified
                twin_cls = {"Tetrahedral": "SquarePlanar", "SquarePlanar": "Tetrahedral",
                            "PlanarBond": "AtropBond", "AtropBond": "PlanarBond"}.get(first[0])
                if twin_cls:
                    d = (twin_cls, first[1], None)
                    op[roles[0].lower()] = model.list_desc((first[0], first[1], None))
                else:
                    d = first
            else:
                # same centre; another class / ordering / parity
                if k == "set_achange":
                    d = self.atom_desc(m, centre=centre, cls=rng.choice(geom.ATOM_CLASSES)) or \
                        (first[0], (first[1][0], *rng.sample(first[1][1:], len(first[1]) - 1)),
                         self.parity_for(first[0]))
                    if rng.random() < 0.4:
                        # another ligand set on this side of the reaction
                        lig = list(d[1][1:])
                        j = rng.randrange(len(lig))
                        others = [a for a in m.sorted_atoms() if a != centre and a not in lig]
                        lig[j] = rng.choice(others) if others and rng.random() < 0.6 else None
                        if lig.count(None) <= 2:
                            d = (d[0], (centre, *lig), d[2])
                else:
                    at = list(first[1])
                    if rng.random() < 0.5:
                        at[0], at[1] = at[1], at[0]
                    if rng.random() < 0.5:
                        j = rng.choice((0, 1, 4, 5, 4, 5))
                        others = [a for a in m.sorted_atoms() if a not in at]
                        at[j] = rng.choice(others) if others and rng.random() < 0.6 else None
                    c = rng.choice(geom.BOND_CLASSES)
                    d = (c, tuple(at), self.parity_for(c))
            op[r.lower()] = model.list_desc(d)
        return op

    # ------------------------------------------------------------------
    # the F1 catalogue: every ill-formed request shape against the current state
    def faulty_mutator(self, s, m, k):
        rng = self.rng
        cat = self.fault_catalogue(s, m)
        same = [o for o in cat if o["k"] == k]
        pool = same or cat
        return rng.choice(pool) if pool else None

    def fault_catalogue(self, s, m):
        """all ill-formed request shapes of C19, instantiated"""
        rng = self.rng
        out = []
        aa = self.absent_atom(m)
        ab = aa + 1 + rng.randrange(3)
        pa = self.present_atom(m)
        pb_ = self.present_bond(m)
        nb = self.absent_bond(m)
        bad_t = rng.choice(BAD_TYPES)
        bad_t = bad_t if not isinstance(bad_t, float) else "Q"
        out.append(dict(k="add_atom", s=s, a=aa, t=bad_t, kw={}))
        if pa is not None:
            out.append(dict(k="add_atom", s=s, a=pa, t=bad_t, kw={}))
        out.append(dict(k="remove_atom", s=s, a=aa))
        # identifiers that descriptors mention without being atoms of the graph
        ghosts = sorted({x for *_w, d in m.all_descs() for x in d[1] if x is not None and x not in m.atoms})
        if any(None in d[1] for *_w, d in m.all_descs()) or rng.random() < 0.2:
            out.append(dict(k="remove_atom", s=s, a=None))
        if ghosts:
            g = rng.choice(ghosts)
            out.append(dict(k="remove_atom", s=s, a=g))
            out.append(dict(k="set_atom_attr", s=s, a=g, key=rng.choice(ATTR_KEYS), val=1))
            if pa is not None:
                out.append(dict(k="add_bond", s=s, a=pa, b=g, kw={}))
        bond_adders = ["add_bond"] + (["add_formed_bond", "add_broken_bond", "add_fleeting_bond"] if m.is_reaction else [])
        for kk in bond_adders:
            out.append(dict(k=kk, s=s, a=aa, b=ab, kw={}))
            if pa is not None:
                out.append(dict(k=kk, s=s, a=pa, b=aa, kw={}))
                out.append(dict(k=kk, s=s, a=aa, b=pa, kw={}))
                out.append(dict(k=kk, s=s, a=pa, b=pa, kw={}))
        out.append(dict(k="remove_bond", s=s, a=nb[0], b=nb[1]))
        out.append(dict(k="set_atom_attr", s=s, a=aa, key=rng.choice(ATTR_KEYS), val=1))
        out.append(dict(k="set_atom_attr", s=s, a=aa, key="atom_type", val="C"))
        out.append(dict(k="del_atom_attr", s=s, a=aa, key=rng.choice(ATTR_KEYS)))
        if pa is not None:
            out.append(dict(k="set_atom_attr", s=s, a=pa, key="atom_type", val=bad_t))
            out.append(dict(k="del_atom_attr", s=s, a=pa, key="atom_type"))
        out.append(dict(k="set_bond_attr", s=s, a=nb[0], b=nb[1], key=rng.choice(BATTR_KEYS), val=1))
        out.append(dict(k="del_bond_attr", s=s, a=nb[0], b=nb[1], key=rng.choice(BATTR_KEYS)))
        if m.is_reaction:
            br = rng.choice(BAD_ROLES)
            if len(m.atoms) >= 2:
                x, y = rng.sample(m.sorted_atoms(), 2)
                out.append(dict(k="add_bond", s=s, a=x, b=y, kw={"reaction": br}))
            if pb_ is not None:
                out.append(dict(k="set_bond_attr", s=s, a=pb_[0], b=pb_[1], key="reaction", val=br))
        # bonds that are gone but still have a descriptor / change table
        orphans = sorted({tuple(sorted(b)) for b in list(m.bstereo) + list(m.bchange) if b not in m.bonds})
        for x, y in orphans[:2]:
            mk = lambda c: (c, (None, None, x, y, None, None), 0 if c == "PlanarBond" else 1)
            if m.is_stereo:
                out.append(dict(k="set_bstereo", s=s, d=model.list_desc(mk(rng.choice(geom.BOND_CLASSES)))))
            if m.has_changes:
                o = dict(k="set_bchange", s=s, broken=None, fleeting=None, formed=None)
                o[rng.choice(ROLES).lower()] = model.list_desc(mk(rng.choice(geom.BOND_CLASSES)))
                out.append(o)
            out.append(dict(k="set_bond_attr", s=s, a=x, b=y, key=rng.choice(BATTR_KEYS), val=1))
            out.append(dict(k="remove_bond", s=s, a=x, b=y))
        if m.is_stereo:
            out.append(dict(k="set_astereo", s=s, d=model.list_desc(self.wild_desc(m, True, centre_present=False))))
            out.append(dict(k="set_bstereo", s=s, d=model.list_desc(self.wild_desc(m, False, centre_present=False))))
            out.append(dict(k="del_astereo", s=s, a=aa))
            out.append(dict(k="del_bstereo", s=s, a=nb[0], b=nb[1]))
        if m.has_changes:
            d1 = self.wild_desc(m, True, centre_present=False)
            r = rng.choice(ROLES)
            o = dict(k="set_achange", s=s, broken=None, fleeting=None, formed=None)
            o[r.lower()] = model.list_desc(d1)
            out.append(o)
            d2 = self.wild_desc(m, False, centre_present=False)
            o = dict(k="set_bchange", s=s, broken=None, fleeting=None, formed=None)
            o[rng.choice(ROLES).lower()] = model.list_desc(d2)
            out.append(o)
            # several centres at once
            if len(m.atoms) >= 2:
                x, y = rng.sample(m.sorted_atoms(), 2)
                da = self.wild_desc(m, True)
                db = (da[0], (y if da[1][0] != y else x, *da[1][1:]), da[2])
                r1, r2 = rng.sample(ROLES, 2)
                o = dict(k="set_achange", s=s, broken=None, fleeting=None, formed=None)
                o[r1.lower()] = model.list_desc(da)
                o[r2.lower()] = model.list_desc(db)
                if da[1][0] != db[1][0]:
                    out.append(o)
                # two centres over one and the same atom multiset, parity unspecified
                lig = [z for z in da[1][1:] if z is not None]
                if lig:
                    c2 = lig[0]
                    dc = (da[0], da[1], None)
                    dd = (da[0], (c2, *[da[1][0] if z == c2 else z for z in da[1][1:]]), None)
                    if c2 in m.atoms and da[1][0] in m.atoms:
                        o = dict(k="set_achange", s=s, broken=None, fleeting=None, formed=None)
                        o[r1.lower()] = model.list_desc(dc)
                        o[r2.lower()] = model.list_desc(dd)
                        out.append(o)
            bs = m.sorted_bonds()
            if len(bs) >= 2:
                b1, b2 = rng.sample(bs, 2)
                mk = lambda bd: ("PlanarBond", (None, None, bd[0], bd[1], None, None), 0)
                r1, r2 = rng.sample(ROLES, 2)
                o = dict(k="set_bchange", s=s, broken=None, fleeting=None, formed=None)
                o[r1.lower()] = model.list_desc(mk(b1))
                o[r2.lower()] = model.list_desc(mk(b2))
                out.append(o)
            out.append(dict(k="set_achange", s=s, broken=None, fleeting=None, formed=None))
            out.append(dict(k="del_achange", s=s, a=aa, role=rng.choice((None,) + ROLES)))
            out.append(dict(k="del_bchange", s=s, a=nb[0], b=nb[1], role=rng.choice((None,) + ROLES)))
        return out

    def lookup_catalogue(self, s, m):
        """every look-up about an absent atom / bond"""
        aa = self.absent_atom(m)
        nb = self.absent_bond(m)
        out = [dict(k="q", s=s, q=q, a=aa) for q in
               ("has_atom", "get_atom_type", "bonded_to", "neighbors_index", "node_connected_component")]
        out.append(dict(k="q", s=s, q="get_atom_attribute", a=aa, key=self.rng.choice(ATTR_KEYS + ["atom_type"])))
        out.append(dict(k="q", s=s, q="get_atom_attributes", a=aa, keys=None))
        out.append(dict(k="q", s=s, q="get_atom_attributes", a=aa, keys=["atom_type"]))
        out.append(dict(k="q", s=s, q="has_bond", a=nb[0], b=nb[1]))
        out.append(dict(k="q", s=s, q="get_bond_attribute", a=nb[0], b=nb[1], key=self.rng.choice(BATTR_KEYS + ["reaction"])))
        out.append(dict(k="q", s=s, q="get_bond_attributes", a=nb[0], b=nb[1]))
        if m.is_stereo:
            out.append(dict(k="q", s=s, q="get_atom_stereo", a=aa))
            out.append(dict(k="q", s=s, q="get_bond_stereo", a=nb[0], b=nb[1]))
        if m.has_changes:
            out.append(dict(k="q", s=s, q="get_atom_stereo_change", a=aa))
            out.append(dict(k="q", s=s, q="get_bond_stereo_change", a=nb[0], b=nb[1]))
            out.append(dict(k="q", s=s, q="atom_changes_index", a=aa))
            out.append(dict(k="q", s=s, q="bond_changes_index", a=nb[0], b=nb[1]))
            pa = self.present_atom(m)
            if pa is not None and pa not in m.achange:
                out.append(dict(k="q", s=s, q="atom_changes_index", a=pa))
            pb_ = self.present_bond(m)
            if pb_ is not None and B(*pb_) not in m.bchange:
                out.append(dict(k="q", s=s, q="bond_changes_index", a=pb_[0], b=pb_[1]))
        if m.is_stereo:
            out.append(dict(k="q", s=s, q="atom_stereo_index", a=aa))
            out.append(dict(k="q", s=s, q="bond_stereo_index", a=nb[0], b=nb[1]))
        return out

    def rand_query(self, s):
        rng = self.rng
        if self.w.graph(s) is None:
            return dict(k="q", s=s, q="len")
        m = self.w.slots[s].model
        if rng.random() < 0.35:
            return rng.choice(self.lookup_catalogue(s, m))
        a = self.present_atom(m)
        b = self.present_bond(m)
        qs = ["connected_components", "connectivity_matrix", "len", "n_atoms", "str", "repr",
              "hash", "eq_self", "as_dict", "export"]
        if a is not None:
            qs += ["has_atom", "get_atom_attribute", "get_atom_type", "get_atom_attributes",
                   "bonded_to", "neighbors_index", "node_connected_component"] * 2
        if b is not None:
            qs += ["has_bond", "get_bond_attribute", "get_bond_attributes"] * 2
        if m.is_stereo:
            qs += ["is_stereo_valid"]
            if a is not None:
                qs += ["get_atom_stereo"] * 2
            if b is not None:
                qs += ["get_bond_stereo"] * 2
        if m.is_reaction:
            qs += ["get_formed_bonds", "get_broken_bonds", "get_fleeting_bonds", "active_atoms"]
        if m.has_changes:
            if a is not None:
                qs += ["get_atom_stereo_change"] * 2
            if b is not None:
                qs += ["get_bond_stereo_change"] * 2
        q = rng.choice(qs)
        op = dict(k="q", s=s, q=q)
        if q in ("has_atom", "get_atom_attribute", "get_atom_type", "get_atom_attributes", "bonded_to",
                 "neighbors_index", "node_connected_component", "get_atom_stereo", "get_atom_stereo_change"):
            op["a"] = a
            if q == "get_atom_attribute":
                op["key"] = rng.choice(ATTR_KEYS + ["atom_type"])
            if q == "get_atom_attributes":
                op["keys"] = None if rng.random() < 0.6 else ["atom_type"]
        elif q in ("has_bond", "get_bond_attribute", "get_bond_attributes", "get_bond_stereo",
                   "get_bond_stereo_change"):
            x, y = b if rng.random() < 0.5 else (b[1], b[0])
            op["a"], op["b"] = x, y
            if q == "get_bond_attribute":
                op["key"] = rng.choice(BATTR_KEYS + ["reaction"])
        elif q == "active_atoms":
            op["layer"] = rng.choice((0, 0, 1, 2))
        if q in ("get_formed_bonds", "get_broken_bonds", "get_fleeting_bonds", "active_atoms",
                 "connected_components", "node_connected_component") and rng.random() < 0.3:
            op["tamper"] = True     # the consumer extends the returned container in place
        return op

    # ------------------------------------------------------------------
    # transactions (python generators yielding one primitive op at a time)
    def tx_build(self, kind=None, size=None, motif=None):
        rng = self.rng
        if not self.room():
            return
        kind = kind or rng.choice(self.cfg["classes"])
        s = self.slot_id()
        yield dict(k="new", dst=s, cls=kind)
        n = size if size is not None else rng.randint(1, self.cfg["max_atoms"])
        if rng.random() < 0.04:
            return  # leave it empty
        ids = list(self.cfg["ids"])
        rng.shuffle(ids)
        ids = ids[:n]
        n = len(ids)
        motif = motif or (self.cfg["motif_bias"] if self.cfg["motif_bias"] != "any"
                          else rng.choice(("star", "ring", "chain", "ez", "random", "tetra4")))
        if self.cfg.get("hypervalent") and size is None and rng.random() < 0.5:
            motif = "star8"
            ids = list(self.cfg["ids"])
            while len(ids) < 9:
                ids.append(max(ids) + 1)
            rng.shuffle(ids)
            ids = ids[:9]
            n = 9
        distinct = motif in ("tetra4", "ez") and len(self.cfg["elements"]) >= 3
        els = list(self.cfg["elements"])
        for i, a in enumerate(ids):
            z = els[i % len(els)] if distinct else rng.choice(els)
            yield dict(k="add_atom", s=s, a=a, t=rng.choice(ELEMENT_FORMS[z]), kw=self.kw())
        bonds = []
        if motif == "star8":
            bonds = [(ids[0], x) for x in ids[1:9]]
        elif motif in ("star", "tetra4") and n >= 2:
            bonds = [(ids[0], x) for x in ids[1:min(n, 7)]]
            bonds += [(ids[i], ids[i + 1]) for i in range(6, n - 1)]
        elif motif == "ring" and n >= 3:
            bonds = [(ids[i], ids[(i + 1) % n]) for i in range(n)]
        elif motif == "chain":
            bonds = [(ids[i], ids[i + 1]) for i in range(n - 1)]
            if n >= 4 and rng.random() < 0.5:
                bonds.pop(rng.randrange(len(bonds)))  # disconnected
        elif motif == "ez" and n >= 4:
            bonds = [(ids[0], ids[1])]
            for i, x in enumerate(ids[2:6]):
                bonds.append((ids[i % 2], x))
            bonds += [(ids[i], ids[i + 1]) for i in range(5, n - 1)]
        else:
            p = rng.choice((0.25, 0.4, 0.6))
            bonds = [(ids[i], ids[j]) for i in range(n) for j in range(i + 1, n) if rng.random() < p]
        rng.shuffle(bonds)
        deg = {}
        for x, y in bonds:
            if motif != "star8" and (deg.get(x, 0) >= 6 or deg.get(y, 0) >= 6):
                continue
            deg[x] = deg.get(x, 0) + 1
            deg[y] = deg.get(y, 0) + 1
            if rng.random() < 0.5:
                x, y = y, x
            kw = self.kw(BATTR_KEYS)
            k = "add_bond"
            if kind in ("CRG", "SCRG") and rng.random() < 0.35:
                k = rng.choice(("add_formed_bond", "add_broken_bond", "add_fleeting_bond"))
            yield dict(k=k, s=s, a=x, b=y, kw=kw)
        if kind in ("SMG", "SCRG") and motif != "star8":
            for _ in range(n + len(bonds)):
                if rng.random() > self.cfg["desc_density"] * 0.5:
                    continue
                sl = self.w.graph(s)
                if sl is None:
                    return
                m = sl.model
                want_change = kind == "SCRG" and rng.random() < 0.4
                if want_change:
                    op = self.change_op(s, m, rng.choice(("set_achange", "set_bchange")))
                    if op:
                        yield op
                    continue
                if rng.random() < 0.6:
                    free = [a for a in m.sorted_atoms() if a not in m.astereo]
                    d = self.atom_desc(m, centre=rng.choice(free)) if free else None
                    if d:
                        yield dict(k="set_astereo", s=s, d=model.list_desc(d))
                else:
                    free = [b for b in m.sorted_bonds() if B(*b) not in m.bstereo]
                    d = self.bond_desc(m, bond=rng.choice(free)) if free else None
                    if d:
                        yield dict(k="set_bstereo", s=s, d=model.list_desc(d))

    def tx_large(self):
        """more than 128 atoms: index types, positional tables, quadratic views"""
        rng = self.rng
        if not self.room():
            for s in self.graphs(unlocked=True)[:2]:
                yield dict(k="drop", s=s)
        s = self.slot_id()
        n = rng.choice((18, 24, 33, 40, 129, 130, 140, 160, 200, 257) if self.tier == "thorough" else (18, 24, 33, 129, 130, 136, 150, 180))
        if PROFILES[self.cfg["profile"]]["small"]:
            n = rng.choice((14, 18, 24, 33))      # mid-size only where brute-force probes share the slots
        kind = rng.choice(self.cfg["classes"])
        yield dict(k="bulk", dst=s, cls=kind, n=n, seed=rng.randrange(2 ** 31),
                   base=rng.choice((0, -50, 1000)), stride=rng.choice((1, 1, 3)), els=sorted(set(self.cfg["elements"]))[:3],
                   style=rng.choice(("atom", "atom", "mixed", "bond", "none")))
        sl = self.w.graph(s)
        if sl is None:
            return
        if kind in ("SMG", "SCRG") and rng.random() < 0.4 and self.room():
            # answer first, mirror, then answer again / persist the mirror image
            yield dict(k="q", s=s, q="hash")
            e = self.slot_id()
            yield dict(k="enantiomer", src=s, dst=e)
            if self.w.graph(e) is not None:
                yield dict(k="q", s=e, q="hash")
                yield dict(k="probe_twin", s=e, seed=rng.randrange(2 ** 31), route="fresh")
                if len(self.w.slots) + 2 <= self.w.max_slots and self.cfg["tx"].get("persist", 0) > 0:
                    t, d1 = self.slot_id(), self.slot_id()
                    yield dict(k="serialize", src=e, dst=t, reencode=None)
                    yield dict(k="deserialize", src=t, dst=d1)
                    for x in (t, d1):
                        if x in self.w.slots:
                            yield dict(k="drop", s=x)
                if e in self.w.slots and not self.w.slots[e].locks:
                    yield dict(k="drop", s=e)
        for _ in range(rng.randint(1, 4)):
            sl = self.w.graph(s)
            if sl is None:
                return
            m = sl.model
            r = rng.random()
            if r < 0.35:
                yield self.rand_mutator(s)
            elif r < 0.45 and m.astereo:
                # remove an atom, re-ligand a centre, remove the new ligand
                yield dict(k="remove_atom", s=s, a=rng.choice(m.sorted_atoms()))
                rr = self.religand(s)
                if rr is not None:
                    for op in rr[0]:
                        yield op
                    if self.w.graph(s) is not None:
                        yield dict(k="remove_atom", s=s, a=rr[1])
            elif r < 0.5:
                yield dict(k="q", s=s, q=rng.choice(("connectivity_matrix", "connected_components", "len", "hash", "eq_self")))
                if n <= 40:
                    yield dict(k="probe_mutant", s=s, seed=rng.randrange(2 ** 31), grouped=True)
            elif r < 0.6:
                yield dict(k="probe_twin", s=s, seed=rng.randrange(2 ** 31), route=rng.choice(("fresh", "relabel")))
            elif r < 0.7 and len(self.w.slots) + 3 <= self.w.max_slots and self.cfg["tx"].get("persist", 0) > 0:
                t, d1, d2 = self.slot_id(), self.slot_id(), self.slot_id()
                yield dict(k="serialize", src=s, dst=t, reencode=rng.choice((None, "sort")))
                yield dict(k="deserialize", src=t, dst=d1)
                if self.w.graph(d1) is not None:
                    yield self.rand_mutator(d1)
                yield dict(k="deserialize", src=t, dst=d2)
                for x in (t, d1, d2):
                    if x in self.w.slots:
                        yield dict(k="drop", s=x)
            elif r < 0.8 and self.room():
                ats = m.sorted_atoms()
                start = rng.randrange(len(ats))
                S = ats[start:start + rng.randint(2, 40)]
                rng.shuffle(S)
                d = self.slot_id()
                yield dict(k="subgraph", src=s, dst=d, atoms=S, **{"as": rng.choice(("list", "set", "gen"))})
                if d in self.w.slots:
                    yield dict(k="drop", s=d)
            elif self.room():
                d = self.slot_id()
                yield dict(k="relabel", src=s, dst=d, map=self.rand_mapping(m), copy=True)
                if d in self.w.slots:
                    yield dict(k="drop", s=d)
        if self.w.graph(s) is not None and not self.w.slots[s].locks:
            yield dict(k="drop", s=s)

    def tx_edit(self):
        rng = self.rng
        if rng.random() < 0.03:
            # another part of the library is used in between (an XYZ text with
            # plain, numbered or unknown labels is read and written back)
            pool_ = ["C", "H", "O", "N", "C1", "H2", "Cl", "cl", "X", "O3", "Fe", "D"]
            yield dict(k="noise", what="xyz", labels=[rng.choice(pool_) for _ in range(rng.randint(1, 4))])
        c = self.graphs(unlocked=True)
        if not c:
            yield from self.tx_build()
            return
        s = rng.choice(c)
        for _ in range(rng.randint(1, 8)):
            sl = self.w.graph(s)
            if sl is None or sl.locks:
                return
            yield self.rand_mutator(s)

    def tx_query(self):
        rng = self.rng
        c = self.graphs()
        if not c:
            return
        s = rng.choice(c)
        for _ in range(rng.randint(1, 4)):
            if self.w.graph(s) is None:
                return
            yield self.rand_query(s)
            if rng.random() < 0.3 and self.w.graph(s) is not None and not self.w.slots[s].locks:
                yield self.rand_mutator(s)

    def tx_faults(self):
        """the complete catalogue against the current state of one graph"""
        c = self.graphs(unlocked=True)
        if not c:
            return
        rng = self.rng
        s = rng.choice(c)
        m = self.w.slots[s].model
        if m.is_stereo and m.bonds and rng.random() < 0.3:
            # first leave a bond behind that is gone but still owns a
            # descriptor / a change table (remove_bond keeps them)
            x, y = self.present_bond(m)
            if B(x, y) not in m.bstereo and (not m.has_changes or rng.random() < 0.5):
                d = self.bond_desc(m, bond=(x, y)) or ("PlanarBond", (None, None, x, y, None, None), 0)
                yield dict(k="set_bstereo", s=s, d=model.list_desc(d))
            elif m.has_changes and B(x, y) not in m.bchange:
                d = self.bond_desc(m, bond=(x, y)) or ("PlanarBond", (None, None, x, y, None, None), 0)
                o = dict(k="set_bchange", s=s, broken=None, fleeting=None, formed=None)
                o["fleeting"] = model.list_desc(d)
                yield o
            if self.w.graph(s) is None or self.w.slots[s].locks:
                return
            yield dict(k="remove_bond", s=s, a=x, b=y)
            if self.w.graph(s) is None or self.w.slots[s].locks:
                return
            m = self.w.slots[s].model
        cat = self.fault_catalogue(s, m) + self.lookup_catalogue(s, m)
        self.rng.shuffle(cat)
        for op in cat:
            sl = self.w.graph(s)
            if sl is None or sl.locks:
                return
            # re-judge against the current state: only keep it if still ill-formed
            yield op

    def derivation(self, src):
        """one random derivation op from slot src (or None)"""
        rng = self.rng
        m = self.w.slots[src].model
        kinds = ["copy", "ctor", "ctor_cross", "relabel", "subgraph", "compose", "serialize"]
        if m.is_stereo:
            kinds += ["enantiomer"] * 2
        if m.is_reaction:
            kinds += ["reverse", "reactant", "product"] * 2
        k = rng.choice(kinds)
        dst = self.slot_id()
        if k == "copy":
            return [dict(k="copy", src=src, dst=dst)]
        if k == "ctor":
            return [dict(k="ctor", src=src, dst=dst, cls=m.kind)]
        if k == "ctor_cross":
            return [dict(k="ctor", src=src, dst=dst, cls=rng.choice(model.KINDS))]
        if k == "relabel":
            return [dict(k="relabel", src=src, dst=dst, map=self.rand_mapping(m), copy=True)]
        if k == "subgraph":
            ats = m.sorted_atoms()
            S = [a for a in ats if rng.random() < 0.7]
            cuts = self.cut_sets(m) if m.has_changes else []
            if cuts and rng.random() < 0.5:
                S = list(rng.choice(cuts))
            rng.shuffle(S)
            return [dict(k="subgraph", src=src, dst=dst, atoms=S,
                         **{"as": rng.choice(("list", "set", "tuple", "iter", "gen"))})]
        if k == "compose":
            others = [x for x in self.graphs() if x != src]
            srcs = [src] + (rng.sample(others, min(len(others), rng.randint(0, 2))) if others else [])
            rng.shuffle(srcs)
            return [dict(k="compose", srcs=srcs, dst=dst, cls=m.kind, **{"as": rng.choice(("list", "tuple", "gen"))})]
        if k == "serialize":
            t = dst
            d2 = self.slot_id()
            return [dict(k="serialize", src=src, dst=t, reencode=rng.choice((None, None, "sort", "indent", "compact"))),
                    dict(k="deserialize", src=t, dst=d2), dict(k="drop", s=t)]
        if k == "enantiomer":
            return [dict(k="enantiomer", src=src, dst=dst)]
        if k == "reverse":
            return [dict(k="reverse", src=src, dst=dst)]
        return [dict(k=k, src=src, dst=dst, keep=rng.random() < 0.8)]

    def rand_mapping(self, m, total=None):
        rng = self.rng
        ats = m.sorted_atoms()
        if not ats:
            return []
        total = rng.random() < 0.4 if total is None else total
        keys = ats if total else [a for a in ats if rng.random() < 0.5]
        if not total and rng.random() < 0.3:
            # touch only atoms that no stereo change (or no descriptor) mentions
            named = {x for w_, _k, _r, d in m.all_descs() if w_ in ("achange", "bchange") or rng.random() < 0.3
                     for x in d[1] if x is not None}
            rest = [a for a in ats if a not in named]
            if rest:
                keys = [a for a in rest if rng.random() < 0.7] or [rng.choice(rest)]
        if not keys:
            keys = [rng.choice(ats)]
        style = rng.randrange(4)
        stay = [a for a in ats if a not in keys]
        if style == 0:      # permutation among the keys themselves (swaps, cycles)
            img = list(keys)
            rng.shuffle(img)
        elif style == 1:    # shift to fresh identifiers
            base = max(ats + self.cfg["ids"]) + 1 + rng.randrange(4)
            img = [base + i for i in range(len(keys))]
            rng.shuffle(img)
        elif style == 2:    # onto free identifiers of the universe
            free = [x for x in self.cfg["ids"] if x not in ats]
            pool = free + list(keys)
            rng.shuffle(pool)
            img = pool[:len(keys)]
        else:               # identity on some
            img = list(keys)
            if len(img) > 1:
                i, j = rng.sample(range(len(img)), 2)
                img[i], img[j] = img[j], img[i]
        mp = dict(zip(keys, img))
        # injectivity on the whole atom set
        out = [mp.get(a, a) for a in ats]
        if len(set(out)) != len(out):
            mp = {a: a for a in keys}
        return [[a, b] for a, b in sorted(mp.items())]

    def cut_sets(self, m):
        """atom subsets that cut through / just contain stereo changes:
        (a) everything except one atom that only some of the descriptors of one
        change table mention, (b) exactly the atoms of one change table plus a
        few others"""
        rng = self.rng
        out = []
        ats = m.sorted_atoms()
        for tab in (m.achange, m.bchange):
            for _c, t in sorted(tab.items(), key=lambda kv: repr(kv[0])):
                sets = [set(geom.desc_atoms(d)) for d in t.values()]
                union = set().union(*sets) if sets else set()
                common = set.intersection(*sets) if sets else set()
                for x in sorted(union - common):
                    if x in m.atoms:
                        out.append([a for a in ats if a != x])
                if union and union <= set(ats):
                    extra = [a for a in ats if a not in union and rng.random() < 0.4]
                    out.append(sorted(union) + extra)
        return out

    def tx_changeshare(self):
        """every derivation of a stereo reaction graph that carries stereo
        changes, each followed by an in-place edit of a change table on one
        side (the other side is watched by the non-target check)"""
        rng = self.rng
        c = [x for x in self.graphs(kinds=("SCRG",), unlocked=True)
             if self.w.slots[x].model.achange or self.w.slots[x].model.bchange]
        if not c:
            if "SCRG" not in self.cfg["classes"] or not self.room():
                yield from self.tx_build()
                return
            # plant one: a star / E-Z skeleton with two or three stereo changes
            s = self.slot_id()
            yield dict(k="new", dst=s, cls="SCRG")
            ids = list(self.cfg["ids"])
            while len(ids) < 9:
                ids.append(max(ids) + 1)
            rng.shuffle(ids)
            n = rng.randint(6, 9)
            for a in ids[:n]:
                yield dict(k="add_atom", s=s, a=a, t=self.el(), kw={})
            hub = ids[0]
            for a in ids[1:5]:
                yield dict(k=rng.choice(("add_bond", "add_bond", "add_formed_bond", "add_broken_bond")), s=s, a=hub, b=a, kw={})
            for i in range(5, n):
                yield dict(k="add_bond", s=s, a=ids[i - 4], b=ids[i], kw={})
            for _ in range(rng.randint(1, 3)):
                sl = self.w.graph(s)
                if sl is None:
                    return
                op = self.change_op(s, sl.model, rng.choice(("set_achange", "set_bchange")))
                if op:
                    yield op
            sl = self.w.graph(s)
            if sl is None or not (sl.model.achange or sl.model.bchange):
                return
        else:
            s = rng.choice(c)
        kinds = ["copy", "ctor", "relabel_avoid", "relabel_total", "subgraph_keep", "compose_one", "compose_two",
                 "enantiomer", "reverse", "json", "reactant", "product"]
        rng.shuffle(kinds)
        for k in kinds[:rng.randint(2, 5)]:
            sl = self.w.graph(s)
            if sl is None or not self.room():
                return
            m = sl.model
            if not (m.achange or m.bchange):
                return
            d = self.slot_id()
            named = {x for w_, _k, _r, dd in m.all_descs() if w_ in ("achange", "bchange") for x in dd[1] if x is not None}
            for b_ in m.bchange:
                named |= set(b_)
            if k == "copy":
                yield dict(k="copy", src=s, dst=d)
            elif k == "ctor":
                yield dict(k="ctor", src=s, dst=d, cls="SCRG")
            elif k == "relabel_avoid":
                rest = [a for a in m.sorted_atoms() if a not in named]
                if not rest:
                    continue
                keys = [a for a in rest if rng.random() < 0.7] or [rest[0]]
                base = max(m.sorted_atoms() + self.cfg["ids"]) + 1
                yield dict(k="relabel", src=s, dst=d, map=[[a, base + i] for i, a in enumerate(keys)], copy=True)
            elif k == "relabel_total":
                yield dict(k="relabel", src=s, dst=d, map=self.rand_mapping(m, total=True), copy=True)
            elif k == "subgraph_keep":
                keep = sorted(named & set(m.atoms))
                extra = [a for a in m.sorted_atoms() if a not in named and rng.random() < 0.5]
                S = keep + extra
                rng.shuffle(S)
                yield dict(k="subgraph", src=s, dst=d, atoms=S, **{"as": rng.choice(("list", "set", "gen"))})
            elif k in ("compose_one", "compose_two"):
                others = [x for x in self.graphs() if x != s]
                srcs = [s] + ([rng.choice(others)] if k == "compose_two" and others else [])
                rng.shuffle(srcs)
                yield dict(k="compose", srcs=srcs, dst=d, cls="SCRG", **{"as": rng.choice(("list", "gen"))})
            elif k == "enantiomer":
                yield dict(k="enantiomer", src=s, dst=d)
            elif k == "reverse":
                yield dict(k="reverse", src=s, dst=d)
            elif k in ("reactant", "product"):
                if not m.role_consistent():
                    continue
                yield dict(k=k, src=s, dst=d, keep=True, after=None)
            else:
                t = self.slot_id()
                yield dict(k="serialize", src=s, dst=t, reencode=None)
                yield dict(k="deserialize", src=t, dst=d)
                yield dict(k="drop", s=t)
            if self.w.graph(d) is None:
                continue
            # in-place edits of change tables, on either side
            for _ in range(rng.randint(1, 2)):
                side = rng.choice((s, d))
                sl2 = self.w.graph(side)
                if sl2 is None or sl2.locks:
                    continue
                m2 = sl2.model
                cands = []
                for a, t_ in sorted(m2.achange.items()):
                    for r in sorted(t_):
                        cands.append(dict(k="del_achange", s=side, a=a, role=r))
                        cands += [dict(k="remove_atom", s=side, a=x) for x in geom.desc_atoms(t_[r])[1:] if x in m2.atoms]
                for b_, t_ in sorted(m2.bchange.items(), key=lambda kv: tuple(sorted(kv[0]))):
                    x, y = sorted(b_)
                    for r in sorted(t_):
                        cands.append(dict(k="del_bchange", s=side, a=x, b=y, role=r))
                        cands += [dict(k="remove_atom", s=side, a=z) for z in geom.desc_atoms(t_[r]) if z in m2.atoms and z not in b_]
                if rng.random() < 0.25:
                    # in-place relabel that moves atoms named by the descriptors
                    named2 = sorted({x for _w, _k, _r, dd in m2.all_descs() for x in dd[1] if x is not None and x in m2.atoms})
                    if named2:
                        keys = rng.sample(named2, min(len(named2), rng.randint(1, 3)))
                        base = max(m2.sorted_atoms() + self.cfg["ids"]) + 1
                        cands = [dict(k="relabel", src=side, dst=None, copy=False,
                                      map=[[a, base + i] for i, a in enumerate(sorted(keys))])]
                if cands:
                    yield rng.choice(cands)
            if d in self.w.slots and not self.w.slots[d].locks and rng.random() < 0.8:
                yield dict(k="drop", s=d)

    def targeted_edit(self, s):
        """an edit that mutates a nested container in place - the places where
        state shared between a graph and its derivative shows"""
        rng = self.rng
        m = self.w.slots[s].model
        c = []
        for a, t in sorted(m.achange.items()):
            for r in sorted(t):
                c.append(dict(k="del_achange", s=s, a=a, role=r))
                for x in geom.desc_atoms(t[r])[1:]:
                    if x in m.atoms:
                        c.append(dict(k="remove_atom", s=s, a=x))
        for b, t in sorted(m.bchange.items(), key=lambda kv: tuple(sorted(kv[0]))):
            x, y = sorted(b)
            for r in sorted(t):
                c.append(dict(k="del_bchange", s=s, a=x, b=y, role=r))
                for z in geom.desc_atoms(t[r]):
                    if z in m.atoms and z not in b:
                        c.append(dict(k="remove_atom", s=s, a=z))
        for a in m.sorted_atoms()[:6]:
            c.append(dict(k="set_atom_attr", s=s, a=a, key=rng.choice(ATTR_KEYS), val=rng.choice(ATTR_VALS)))
            for key in sorted(m.atoms[a]):
                if key != "atom_type":
                    c.append(dict(k="del_atom_attr", s=s, a=a, key=key))
        for x, y in m.sorted_bonds()[:6]:
            c.append(dict(k="set_bond_attr", s=s, a=x, b=y, key=rng.choice(BATTR_KEYS), val=rng.choice(ATTR_VALS)))
            for key in sorted(m.bonds[B(x, y)]):
                if key != "reaction":
                    c.append(dict(k="del_bond_attr", s=s, a=x, b=y, key=key))
            c.append(dict(k="remove_bond", s=s, a=x, b=y))
        if not c:
            return self.rand_mutator(s)
        return rng.choice(c)

    def bad_derive(self, c):
        """an ill-formed derivation request over some live graphs"""
        rng = self.rng
        srcs = rng.sample(c, min(len(c), rng.randint(1, 2)))
        kinds = [self.w.slots[x].model.kind for x in srcs]
        what = rng.choice(("compose", "compose", "compose", "ctor", "subgraph", "from_graphs"))
        cls = rng.choice(kinds + list(self.cfg["classes"]))
        if what == "from_graphs":
            cls = rng.choice(("CRG", "SCRG"))
        return dict(k="bad_derive", what=what, srcs=srcs, cls=cls, junk=rng.choice(("none", "none", "int", "str")),
                    pos=rng.randrange(3), unknown=10 ** 9 + rng.randrange(5))

    def tx_derive_edit(self):
        rng = self.rng
        c = self.graphs()
        if not c or not self.room():
            yield from self.tx_build()
            return
        if rng.random() < 0.08:
            yield self.bad_derive(c)
            c = self.graphs()
            if not c or not self.room():
                return
        src = rng.choice(c)
        ops = self.derivation(src)
        for op in ops:
            yield op
        new = [op["dst"] for op in ops if "dst" in op and self.w.graph(op.get("dst")) is not None]
        if not new:
            return
        dst = new[-1]
        for _ in range(rng.randint(1, 6)):
            side = rng.choice((src, dst))
            sl = self.w.graph(side)
            if sl is None or sl.locks:
                continue
            r = rng.random()
            if r < 0.12:
                m = sl.model
                yield dict(k="relabel", src=side, dst=None, map=self.rand_mapping(m), copy=False)
            elif r < 0.5:
                yield self.targeted_edit(side)
            else:
                yield self.rand_mutator(side)
        if rng.random() < 0.3 and self.w.graph(dst) is not None and not self.w.slots[dst].locks:
            yield dict(k="drop", s=dst)

    def tx_relabel(self):
        rng = self.rng
        c = self.graphs()
        if not c:
            yield from self.tx_build()
            return
        src = rng.choice(c)
        m = self.w.slots[src].model
        mp = self.rand_mapping(m)
        inplace = rng.random() < 0.45 and not self.w.slots[src].locks
        if inplace:
            yield dict(k="relabel", src=src, dst=None, map=mp, copy=False)
            tgt = src
        else:
            if not self.room():
                return
            tgt = self.slot_id()
            yield dict(k="relabel", src=src, dst=tgt, map=mp, copy=True)
        if self.w.graph(tgt) is None:
            return
        if rng.random() < 0.2:
            # the caller keeps one mapping dictionary and refills it: the same
            # atoms sent somewhere else, twice in a row
            for _ in range(2):
                sl = self.w.graph(tgt)
                if sl is None or sl.locks or not sl.model.atoms:
                    break
                keys = sl.model.sorted_atoms()[:rng.randint(1, 4)]
                top = max(sl.model.sorted_atoms() + self.cfg["ids"]) + 1
                vals = [top + i * rng.choice((1, 2)) + rng.randrange(2) for i in range(len(keys))]
                vals = list(dict.fromkeys(vals))
                if len(vals) != len(keys):
                    break
                yield dict(k="relabel", src=tgt, dst=None, map=[[a, b] for a, b in zip(keys, vals)], copy=False, reuse=True)
                sl = self.w.graph(tgt)
                if sl is None or sl.locks:
                    break
                # ... and back, through the same dictionary
                back = [[b, a] for a, b in zip(keys, vals)]
                if model.valid_relabel(sl.model, {a: b for a, b in back}):
                    yield dict(k="relabel", src=tgt, dst=None, map=back, copy=False, reuse=True)
        if rng.random() < 0.3:
            # give a centre a new ligand, then rename just that atom
            rr = self.religand(tgt)
            sl = self.w.graph(tgt)
            if rr is not None and sl is not None and not sl.locks:
                for op in rr[0]:
                    yield op
                sl = self.w.graph(tgt)
                if sl is not None and rr[1] in sl.model.atoms:
                    fresh = max(sl.model.sorted_atoms() + self.cfg["ids"]) + 1 + rng.randrange(3)
                    if rng.random() < 0.5 and not sl.locks:
                        yield dict(k="relabel", src=tgt, dst=None, map=[[rr[1], fresh]], copy=False)
                    elif self.room():
                        yield dict(k="relabel", src=tgt, dst=self.slot_id(), map=[[rr[1], fresh]], copy=True)
        # follow-up operations on the relabelled graph
        for _ in range(rng.randint(0, 5)):
            sl = self.w.graph(tgt)
            if sl is None or sl.locks:
                return
            r = rng.random()
            if r < 0.5:
                yield self.rand_mutator(tgt)
            elif r < 0.8:
                yield self.rand_query(tgt)
            else:
                yield dict(k="probe_twin", s=tgt, seed=rng.randrange(2 ** 31), route=rng.choice(("fresh", "relabel", "self")))
        # undo with the inverse mapping
        sl = self.w.graph(tgt)
        if sl is not None and rng.random() < 0.6:
            inv = [[b, a] for a, b in mp if b in sl.model.atoms]
            if model.valid_relabel(sl.model, {a: b for a, b in inv}):
                if rng.random() < 0.5 and not sl.locks:
                    yield dict(k="relabel", src=tgt, dst=None, map=inv, copy=False)
                elif self.room():
                    yield dict(k="relabel", src=tgt, dst=self.slot_id(), map=inv, copy=True)

    def tx_twin(self):
        rng = self.rng
        c = self.graphs()
        if not c:
            yield from self.tx_build()
            return
        s = rng.choice(c)
        if rng.random() < 0.3 and not self.w.slots[s].locks:
            yield self.rand_mutator(s)
        route = rng.choice(("fresh", "fresh", "fresh", "relabel", "relabel", "self", "detour"))
        yield dict(k="probe_twin", s=s, seed=rng.randrange(2 ** 31), route=route)

    def tx_pair(self):
        rng = self.rng
        c = self.graphs()
        if len(c) < 2:
            yield from self.tx_build()
            return
        # prefer same-kind pairs of equal size
        s1 = rng.choice(c)
        k1 = self.w.slots[s1].model
        same = [x for x in c if x != s1 and self.w.slots[x].model.kind == k1.kind]
        s2 = rng.choice(same) if same and rng.random() < 0.8 else rng.choice([x for x in c if x != s1])
        yield dict(k="probe_pair", s1=s1, s2=s2)

    WL_PAIRS = (
        # (n atoms, bonds of A, bonds of B): same degree sequence, one element,
        # colour refinement cannot tell them apart - only the search can
        (6, [(0, 1), (1, 2), (2, 3), (3, 4), (4, 5), (5, 0)], [(0, 1), (1, 2), (2, 0), (3, 4), (4, 5), (5, 3)]),
        (7, [(i, (i + 1) % 7) for i in range(7)], [(0, 1), (1, 2), (2, 0), (3, 4), (4, 5), (5, 6), (6, 3)]),
        (8, [(i, (i + 1) % 8) for i in range(8)], [(0, 1), (1, 2), (2, 3), (3, 0), (4, 5), (5, 6), (6, 7), (7, 4)]),
        (8, [(i, (i + 1) % 8) for i in range(8)], [(0, 1), (1, 2), (2, 0), (3, 4), (4, 5), (5, 6), (6, 7), (7, 3)]),
        (6, [(0, 3), (0, 4), (0, 5), (1, 3), (1, 4), (1, 5), (2, 3), (2, 4), (2, 5)],
            [(0, 1), (1, 2), (2, 0), (3, 4), (4, 5), (5, 3), (0, 3), (1, 4), (2, 5)]),
        (9, [(i, (i + 1) % 9) for i in range(9)], [(0, 1), (1, 2), (2, 0), (3, 4), (4, 5), (5, 3), (6, 7), (7, 8), (8, 6)]),
        (10, [(i, (i + 1) % 10) for i in range(10)],
             [(0, 1), (1, 2), (2, 3), (3, 0), (4, 5), (5, 6), (6, 7), (7, 8), (8, 9), (9, 4)]),
        # decalin vs bicyclopentyl skeletons
        (10, [(0, 1), (1, 2), (2, 3), (3, 4), (4, 5), (5, 0), (4, 6), (6, 7), (7, 8), (8, 9), (9, 5)],
             [(0, 1), (1, 2), (2, 3), (3, 4), (4, 0), (0, 5), (5, 6), (6, 7), (7, 8), (8, 9), (9, 5)]),
        # cube vs twisted cube (3-regular, 8 atoms)
        (8, [(0, 1), (1, 2), (2, 3), (3, 0), (4, 5), (5, 6), (6, 7), (7, 4), (0, 4), (1, 5), (2, 6), (3, 7)],
            [(0, 1), (1, 2), (2, 3), (3, 0), (4, 5), (5, 6), (6, 7), (7, 4), (0, 4), (1, 5), (2, 7), (3, 6)]),
    )

    def random_regular(self, n, k):
        rng = self.rng
        for _ in range(60):
            stubs = [i for i in range(n) for _ in range(k)]
            rng.shuffle(stubs)
            bonds = set()
            ok = True
            for i in range(0, len(stubs), 2):
                x, y = stubs[i], stubs[i + 1]
                if x == y or frozenset((x, y)) in bonds:
                    ok = False
                    break
                bonds.add(frozenset((x, y)))
            if ok:
                return sorted(tuple(sorted(b)) for b in bonds)
        return None

    def random_regular_pair(self):
        n, k = self.rng.choice(((6, 3), (7, 4), (8, 3), (8, 4), (9, 4), (9, 4), (10, 3), (10, 4), (10, 4), (8, 5), (12, 3), (12, 3)))
        a = self.random_regular(n, k)
        b = self.random_regular(n, k)
        if a is None or b is None:
            return None
        return n, a, b

    def tx_wlpair(self):
        rng = self.rng
        if len(self.w.slots) + 3 > self.w.max_slots:
            for s in self.graphs(unlocked=True)[:3]:
                yield dict(k="drop", s=s)
        n, ba, bb = rng.choice(self.WL_PAIRS)
        if rng.random() < 0.45:
            # two random k-regular graphs on n atoms of one element: colour
            # refinement can never separate them, cages and polycycles included
            reg = self.random_regular_pair()
            if reg is not None:
                n, ba, bb = reg
        kind = rng.choice(self.cfg["classes"])
        z = rng.choice(self.cfg["elements"])
        ids = list(self.cfg["ids"])
        while len(ids) < n:
            ids.append(max(ids) + 1 + rng.randrange(3))
        slots = []
        # reaction classes: the pair may also live in the *roles* of a complete
        # graph (same adjacency, role pattern A vs. B) - only a role-aware
        # comparison separates those
        in_roles = kind in ("CRG", "SCRG") and n <= 7 and rng.random() < 0.5
        role = rng.choice(("add_formed_bond", "add_broken_bond", "add_fleeting_bond"))
        rname = {"add_formed_bond": "FORMED", "add_broken_bond": "BROKEN", "add_fleeting_bond": "FLEETING"}[role]
        for bonds in (ba, bb):
            s = self.slot_id()
            slots.append(s)
            perm = rng.sample(ids, n)
            order = list(range(n))
            rng.shuffle(order)
            bl = list(bonds)
            marked = set()
            if in_roles:
                marked = {frozenset(b) for b in bonds}
                bl = [(x, y) for x in range(n) for y in range(x + 1, n)]
            rng.shuffle(bl)
            yield dict(k="spec", dst=s, cls=kind, atoms=[[perm[i], z] for i in order],
                       bonds=[[perm[x], perm[y], rname if frozenset((x, y)) in marked else None] for x, y in bl])
        a, b = slots
        if self.w.graph(a) is None or self.w.graph(b) is None:
            return
        if rng.random() < 0.5:
            a, b = b, a
        yield dict(k="probe_pair", s1=a, s2=b, variants=rng.choice((0, 2, 4, 6)), seed=rng.randrange(2 ** 31))
        if kind == "SMG":
            # regular, not vertex transitive: the symmetry number must still be exact
            yield dict(k="symnum", s=a)
            yield dict(k="symnum", s=b)
        if 2 * n <= 12 and not in_roles and self.room() and rng.random() < 0.7 \
                and self.w.graph(a) is not None and self.w.graph(b) is not None:
            # both partners as the two molecules of one graph: components that
            # colour refinement cannot tell apart and that are not copies
            ma, mb = self.w.slots[a].model, self.w.slots[b].model
            top = max(list(ma.atoms) + list(mb.atoms)) + 1 + rng.randrange(3)
            ren = {x: top + i for i, x in enumerate(sorted(mb.atoms))}
            u = self.slot_id()
            atoms = [[x, z] for x in ma.atoms] + [[ren[x], z] for x in mb.atoms]
            bonds = [sorted(bd) + [None] for bd in ma.bonds] + [sorted(ren[x] for x in bd) + [None] for bd in mb.bonds]
            rng.shuffle(atoms)
            rng.shuffle(bonds)
            yield dict(k="spec", dst=u, cls=kind, atoms=atoms, bonds=bonds, reserved=True)
            if self.w.graph(u) is not None:
                if kind == "SMG":
                    yield dict(k="symnum", s=u)
                yield dict(k="probe_twin", s=u, seed=rng.randrange(2 ** 31), route="fresh")
                if self.room() and rng.random() < 0.5:
                    e = self.slot_id()
                    yield dict(k="enum_open", g1=u, g2=u, dst=e, stereo=False, changes=False, labels=None)
                    if e in self.w.slots:
                        yield dict(k="gen_drain", g=e, tamper=None)
                        yield dict(k="gen_close", g=e, how="close")
                if u in self.w.slots and not self.w.slots[u].locks:
                    yield dict(k="drop", s=u)
        if self.room() and rng.random() < 0.7:
            e = self.slot_id()
            yield dict(k="enum_open", g1=a, g2=b, dst=e, stereo=False, changes=False, labels=None)
            if e in self.w.slots:
                yield dict(k="gen_drain", g=e, tamper=None)
                yield dict(k="gen_close", g=e, how="close")
        if self.room() and rng.random() < 0.5 and self.w.graph(a) is not None:
            # automorphisms of the more symmetric partner
            e = self.slot_id()
            yield dict(k="enum_open", g1=a, g2=a, dst=e, stereo=False, changes=False, labels=None)
            if e in self.w.slots:
                yield dict(k="gen_drain", g=e, tamper=None)
                yield dict(k="gen_close", g=e, how="close")
        for s in slots:
            if s in self.w.slots and rng.random() < 0.7 and not self.w.slots[s].locks:
                yield dict(k="drop", s=s)

    def tx_copies(self):
        """several copies of one small (reaction) motif in one graph: the
        search has to pair the copies up consistently, and for reaction graphs
        the first adjacency-preserving mapping usually does not preserve the
        bond roles"""
        rng = self.rng
        if len(self.w.slots) + 2 > self.w.max_slots:
            for s in self.graphs(unlocked=True)[:2]:
                yield dict(k="drop", s=s)
        kind = rng.choice(self.cfg["classes"])
        k = rng.choice((2, 2, 3))
        n = rng.choice((3, 4, 4, 6))
        z = rng.choice(self.cfg["elements"])
        z2 = rng.choice(self.cfg["elements"])
        ring = [(i, (i + 1) % n) for i in range(n)] if n > 2 else [(0, 1)]
        if rng.random() < 0.3:
            ring = ring[:-1]                      # chains instead of rings
        roles = []
        pattern = rng.choice(("alt", "alt", "random", "none"))
        for i, _b in enumerate(ring):
            if kind not in ("CRG", "SCRG") or pattern == "none":
                roles.append(None)
            elif pattern == "alt":
                roles.append(("FORMED", "BROKEN")[i % 2])
            else:
                roles.append(rng.choice((None, "FORMED", "BROKEN", "FLEETING")))
        spect = rng.choice((0, 0, 2, 4))          # unbonded spectator atoms
        base = rng.choice((0, 50, -30))
        atoms, bonds = [], []
        nxt = base
        for c in range(k):
            ids = list(range(nxt, nxt + n))
            nxt += n
            for j, a in enumerate(ids):
                atoms.append([a, z if j % 2 == 0 else z2])
            for (x, y), r in zip(ring, roles):
                bonds.append([ids[x], ids[y], r])
        for _ in range(spect):
            atoms.append([nxt, rng.choice((z, 2))])
            nxt += 1
        rng.shuffle(atoms)
        rng.shuffle(bonds)
        s = self.slot_id()
        yield dict(k="spec", dst=s, cls=kind, atoms=atoms, bonds=bonds, reserved=True)
        if self.w.graph(s) is None:
            return
        for _ in range(rng.randint(1, 3)):
            yield dict(k="probe_twin", s=s, seed=rng.randrange(2 ** 31), route=rng.choice(("fresh", "relabel", "fresh")))
        if self.room() and rng.random() < 0.6:
            e = self.slot_id()
            yield dict(k="enum_open", g1=s, g2=s, dst=e, stereo=False, changes=False, labels=rng.choice((None, None, "degree")))
            if e in self.w.slots:
                yield dict(k="gen_drain", g=e, tamper=None)
                yield dict(k="gen_close", g=e, how="close")
        if s in self.w.slots and not self.w.slots[s].locks:
            yield dict(k="drop", s=s)

    def tx_exchange(self):
        """degenerate exchange between equivalent positions: two copies of one
        motif (separate molecules, or linked at one atom like the halves of
        ethane) swap a ligand.  Atom by atom the reactant and the product
        surroundings are those of the idle system, only the transition
        structure tells the two apart (C16 third family; C02: unequal)"""
        rng = self.rng
        kinds = [k for k in self.cfg["classes"] if k in ("CRG", "SCRG")]
        if not kinds:
            yield from self.tx_build()
            return
        if len(self.w.slots) + 2 > self.w.max_slots:
            for s in self.graphs(unlocked=True)[:2]:
                yield dict(k="drop", s=s)
        kind = rng.choice(kinds)
        n = rng.choice((2, 2, 3, 4, 5))
        els = [rng.choice(self.cfg["elements"]) for _ in range(n)]
        # random tree on the motif
        tree = [(rng.randrange(i), i) for i in range(1, n)]
        if n >= 3 and rng.random() < 0.3:
            x, y = rng.sample(range(n), 2)
            if (min(x, y), max(x, y)) not in tree:
                tree.append((min(x, y), max(x, y)))
        swap = rng.choice(tree)
        link = rng.choice((None, None, rng.randrange(n)))
        if link is not None and link in swap and n == 2:
            link = None
        base = rng.choice((0, 30, -20, 2 ** 33))
        stride = rng.choice((1, 2))
        ida = [base + i * stride for i in range(n)]
        idb = [base + (n + i) * stride + 1 for i in range(n)]
        slots = []
        for exchanged in (False, True):
            atoms = [[a, z] for a, z in zip(ida, els)] + [[a, z] for a, z in zip(idb, els)]
            bonds = []
            for x, y in tree:
                if exchanged and (x, y) == swap:
                    bonds += [[ida[x], ida[y], "BROKEN"], [idb[x], idb[y], "BROKEN"],
                              [ida[x], idb[y], "FORMED"], [idb[x], ida[y], "FORMED"]]
                else:
                    bonds += [[ida[x], ida[y], None], [idb[x], idb[y], None]]
            if link is not None:
                bonds.append([ida[link], idb[link], None])
            seen = set()
            bonds = [b for b in bonds if frozenset(b[:2]) not in seen and not seen.add(frozenset(b[:2]))]
            rng.shuffle(atoms)
            rng.shuffle(bonds)
            s = self.slot_id()
            slots.append(s)
            yield dict(k="spec", dst=s, cls=kind, atoms=atoms, bonds=bonds, reserved=True)
        a, b = slots
        if self.w.graph(a) is None or self.w.graph(b) is None:
            return
        if rng.random() < 0.5:
            a, b = b, a
        yield dict(k="probe_pair", s1=a, s2=b, variants=rng.choice((0, 0, 2)), seed=rng.randrange(2 ** 31))
        yield dict(k="probe_twin", s=slots[1], seed=rng.randrange(2 ** 31), route=rng.choice(("fresh", "relabel")))
        for s in slots:
            if s in self.w.slots and not self.w.slots[s].locks and rng.random() < 0.8:
                yield dict(k="drop", s=s)

    def tx_dense(self):
        """near-complete graphs: long work lists, many ring closures"""
        rng = self.rng
        kinds = [k for k in self.cfg["classes"] if k in ("MG", "CRG")] or ["MG"]
        if not self.room():
            for s in self.graphs(unlocked=True)[:2]:
                yield dict(k="drop", s=s)
        kind = rng.choice(kinds)
        n = rng.choice((7, 8, 8, 9, 10, 12))
        ids = list(self.cfg["ids"])
        while len(ids) < n + 2:
            ids.append(max(ids) + 1)
        rng.shuffle(ids)
        core = ids[:n]
        pend = ids[n:n + rng.randint(0, 2)]
        bonds = [[core[i], core[j], None] for i in range(n) for j in range(i + 1, n) if rng.random() < rng.choice((1.0, 0.9, 0.75))]
        for p_ in pend:
            bonds.append([rng.choice(core), p_, None])
        atoms = [[a, rng.choice(self.cfg["elements"])] for a in core + pend]
        rng.shuffle(atoms)
        rng.shuffle(bonds)
        s = self.slot_id()
        yield dict(k="spec", dst=s, cls=kind, atoms=atoms, bonds=bonds, reserved=True)
        if self.w.graph(s) is None:
            return
        for a in rng.sample(core + pend, min(3, len(core + pend))):
            yield dict(k="q", s=s, q="node_connected_component", a=a)
        yield dict(k="q", s=s, q="connected_components")
        if rng.random() < 0.5:
            x, y = rng.sample(core, 2)
            yield dict(k="remove_bond", s=s, a=x, b=y) if B(x, y) in self.w.slots[s].model.bonds else dict(k="q", s=s, q="len")
            yield dict(k="q", s=s, q="connected_components")
        if self.room() and rng.random() < 0.5:
            d = self.slot_id()
            S = rng.sample(core + pend, rng.randint(2, len(core)))
            yield dict(k="subgraph", src=s, dst=d, atoms=S, **{"as": "list"})
            if d in self.w.slots:
                yield dict(k="drop", s=d)
        if s in self.w.slots and not self.w.slots[s].locks:
            yield dict(k="drop", s=s)

    def tx_known(self):
        """re-confirmation of the open finding KF-unfaithful-stereo-hash: its
        recorded example, under fresh identifiers"""
        rng = self.rng
        if len(self.w.slots) + 2 > self.w.max_slots:
            for s in self.graphs(unlocked=True)[:2]:
                yield dict(k="drop", s=s)
        base = rng.choice((0, 10, -20, 500))
        A, Bc, C, H = rng.sample(range(base, base + 8), 4)
        slots = []
        for role in (None, "FORMED"):
            s = self.slot_id()
            slots.append(s)
            yield dict(k="spec", dst=s, cls="SCRG", reserved=True,
                       atoms=[[A, 6], [Bc, 6], [C, 6], [H, 1]],
                       bonds=[[Bc, A, "BROKEN"], [C, Bc, role]],
                       astereo=[["Tetrahedral", [Bc, None, C, A, None], 1], ["Tetrahedral", [C, None, None, Bc, H], 1]])
        if all(self.w.graph(x) is not None for x in slots):
            yield dict(k="probe_pair", s1=slots[0], s2=slots[1])
        for x in slots:
            if x in self.w.slots:
                yield dict(k="drop", s=x)

    def tx_treepair(self):
        """two trees / chains over two to four elements that differ by a local
        rearrangement (neighbouring atoms exchange elements, a leaf moves):
        colour refinement separates them only in its last rounds"""
        rng = self.rng
        if len(self.w.slots) + 2 > self.w.max_slots:
            for s in self.graphs(unlocked=True)[:2]:
                yield dict(k="drop", s=s)
        kind = rng.choice(self.cfg["classes"])
        n = rng.randint(5, 11)
        els = rng.sample([6, 7, 8, 9, 16, 17], rng.choice((2, 3, 3, 4)))
        seq = [rng.choice(els) for _ in range(n)]
        bonds = [(i, i + 1) for i in range(n - 1)] if rng.random() < 0.6 else \
            [(rng.randrange(0, i), i) for i in range(1, n)]
        seq2, bonds2 = list(seq), list(bonds)
        how = rng.choice(("swap", "swap", "leaf"))
        if how == "swap":
            cand = [(x, y) for x, y in bonds if seq[x] != seq[y]]
            if not cand:
                return
            x, y = rng.choice(cand)
            seq2[x], seq2[y] = seq2[y], seq2[x]
        else:
            deg = {i: 0 for i in range(n)}
            for x, y in bonds:
                deg[x] += 1
                deg[y] += 1
            leaves = [i for i in range(n) if deg[i] == 1]
            leaf = rng.choice(leaves)
            bonds2 = [b for b in bonds if leaf not in b]
            others = [i for i in range(n) if i != leaf and (leaf, i) not in bonds and (i, leaf) not in bonds]
            if not others:
                return
            bonds2.append((rng.choice(others), leaf))
        ids = list(self.cfg["ids"])
        while len(ids) < n:
            ids.append(max(ids) + 1 + rng.randrange(3))
        slots = []
        for sq, bd in ((seq, bonds), (seq2, bonds2)):
            perm = rng.sample(ids, n)
            order = list(range(n))
            rng.shuffle(order)
            bl = list(bd)
            rng.shuffle(bl)
            s = self.slot_id()
            slots.append(s)
            yield dict(k="spec", dst=s, cls=kind, reserved=True, atoms=[[perm[i], sq[i]] for i in order],
                       bonds=[[perm[x], perm[y], None] for x, y in bl])
        if all(self.w.graph(x) is not None for x in slots):
            a, b = slots if rng.random() < 0.5 else slots[::-1]
            yield dict(k="probe_pair", s1=a, s2=b, variants=rng.choice((0, 0, 2)), seed=rng.randrange(2 ** 31))
        for x in slots:
            if x in self.w.slots and not self.w.slots[x].locks:
                yield dict(k="drop", s=x)

    def religand(self, s):
        """ops: replace one ligand of an existing atom descriptor by another
        atom of the graph (returns (ops, new ligand) or None)"""
        rng = self.rng
        sl = self.w.graph(s)
        if sl is None or not sl.model.astereo:
            return None
        m = sl.model
        c = rng.choice(sorted(m.astereo))
        d = m.astereo[c]
        others = [a for a in m.sorted_atoms() if a != c and a not in d[1]]
        lig = list(d[1][1:])
        idx = [i for i, x in enumerate(lig)]
        if not others or not idx:
            return None
        y = rng.choice(others)
        lig[rng.choice(idx)] = y
        return [dict(k="set_astereo", s=s, d=model.list_desc((d[0], (c, *lig), d[2])))], y

    def tx_religand(self):
        """remove an atom, give a centre a new ligand, remove that ligand"""
        rng = self.rng
        c = [x for x in self.graphs(kinds=("SMG", "SCRG"), unlocked=True) if self.w.slots[x].model.astereo]
        if not c:
            yield from self.tx_build()
            return
        s = rng.choice(c)
        m = self.w.slots[s].model
        named = {x for _w, _k, _r, d in m.all_descs() for x in d[1] if x is not None}
        plain = [a for a in m.sorted_atoms() if a not in named]
        if plain and rng.random() < 0.7:
            yield dict(k="remove_atom", s=s, a=rng.choice(plain))
        r = self.religand(s)
        if r is None:
            return
        ops, y = r
        for op in ops:
            yield op
        sl = self.w.graph(s)
        if sl is None or sl.locks:
            return
        if rng.random() < 0.3:
            yield self.rand_query(s)
        yield dict(k="remove_atom", s=s, a=y)

    def tx_hubs(self):
        """two molecules with hypervalent centres (7 neighbours, no descriptor)
        that distribute the same ligands differently: the (element, neighbour
        elements) multisets differ, so must the hashes"""
        rng = self.rng
        if len(self.w.slots) + 2 > self.w.max_slots:
            for s in self.graphs(unlocked=True)[:2]:
                yield dict(k="drop", s=s)
        kind = rng.choice([k for k in self.cfg["classes"] if k in ("SMG", "SCRG", "MG", "CRG")])
        hub, x, y = rng.sample([53, 9, 17, 35, 75, 1, 8], 3)
        deg = rng.choice((7, 7, 6, 5))
        base = rng.choice((0, 100, -40))
        slots = []
        splits = rng.sample(range(0, deg + 1), 2)
        dcls = None
        if kind in ("SMG", "SCRG") and rng.random() < 0.5:
            deg = rng.choice((4, 4, 5, 6))
            splits = rng.sample(range(0, deg + 1), 2)
            dcls = {4: rng.choice(("Tetrahedral", "SquarePlanar")), 5: "TrigonalBipyramidal", 6: "Octahedral"}[deg]
        for k in splits:
            atoms, bonds, descs = [], [], []
            nxt = base
            for h, nx in ((0, k), (1, deg - k)):
                c = nxt
                nxt += 1
                atoms.append([c, hub])
                lig = []
                for i in range(deg):
                    atoms.append([nxt, x if i < nx else y])
                    bonds.append([c, nxt, None])
                    lig.append(nxt)
                    nxt += 1
                if dcls:
                    rng.shuffle(lig)
                    descs.append([dcls, [c, *lig], rng.choice((1, -1)) if geom.CHIRAL[dcls] else 0])
            rng.shuffle(atoms)
            rng.shuffle(bonds)
            s = self.slot_id()
            slots.append(s)
            yield dict(k="spec", dst=s, cls=kind, atoms=atoms, bonds=bonds, astereo=descs, reserved=True)
        a, b = slots
        if self.w.graph(a) is None or self.w.graph(b) is None:
            return
        yield dict(k="probe_pair", s1=a, s2=b)
        yield dict(k="probe_twin", s=a, seed=rng.randrange(2 ** 31), route=rng.choice(("fresh", "relabel")))
        if kind in ("SMG", "SCRG") and rng.random() < 0.6 and self.w.graph(a) is not None:
            # terminal ligands with stereo information of their own (a doubly
            # bonded end written with lone-pair placeholders, a padded centre):
            # siblings of one element that refinement does tell apart
            m = self.w.slots[a].model
            nb = m.neighbours()
            for c in sorted(x_ for x_ in m.atoms if len(nb[x_]) >= 4)[:2]:
                lig = sorted(nb[c])
                for _ in range(rng.randint(1, 2)):
                    t = rng.choice(lig)
                    rest = [q for q in lig if q != t]
                    if rng.random() < 0.6 and len(rest) >= 2:
                        o = rng.sample(rest, 2)
                        d = ["PlanarBond", [None, None, t, c, o[0], o[1]], 0]
                        if rng.random() < 0.5:
                            d = ["PlanarBond", [o[0], o[1], c, t, None, None], 0]
                        yield dict(k="set_bstereo", s=a, d=d)
                    else:
                        yield dict(k="set_astereo", s=a, d=["Tetrahedral", [t, c, None, None, None], rng.choice((1, -1))])
            for _ in range(3):
                if self.w.graph(a) is not None:
                    yield dict(k="probe_twin", s=a, seed=rng.randrange(2 ** 31), route=rng.choice(("fresh", "relabel")))
        for s in slots:
            if s in self.w.slots and not self.w.slots[s].locks:
                yield dict(k="drop", s=s)

    def tx_mutant(self):
        rng = self.rng
        c = self.graphs(nonempty=True)
        if not c:
            yield from self.tx_build()
            return
        s = rng.choice(c)
        yield dict(k="probe_mutant", s=s, seed=rng.randrange(2 ** 31), prelude=rng.random() < 0.3, grouped=rng.random() < 0.3)
        # single-feature edit on a copy, then compare the live pair
        if self.room() and rng.random() < 0.5:
            d = self.slot_id()
            yield dict(k="copy", src=s, dst=d)
            if self.w.graph(d) is not None:
                yield self.rand_mutator(d)
                yield dict(k="probe_pair", s1=s, s2=d)
                if rng.random() < 0.7:
                    yield dict(k="drop", s=d)

    def tx_enum(self):
        rng = self.rng
        c = [s for s in self.graphs(nonempty=True) if len(self.w.slots[s].model.atoms) <= 24]
        if not c or not self.room():
            yield from self.tx_build()
            return
        g1 = rng.choice(c)
        m1 = self.w.slots[g1].model
        if m1.has_changes and not self.w.slots[g1].locks and rng.random() < 0.5:
            # several stereo changes of one kind (they share ligands in small graphs)
            role = rng.choice(ROLES).lower()
            for _ in range(rng.randint(1, 4)):
                sl = self.w.graph(g1)
                if sl is None or sl.locks:
                    break
                m = sl.model
                if rng.random() < 0.5:
                    free = [a for a in m.sorted_atoms() if a not in m.achange]
                    d = self.atom_desc(m, centre=rng.choice(free), allow_none=False) if free else None
                    if d:
                        op = dict(k="set_achange", s=g1, broken=None, fleeting=None, formed=None)
                        op[role] = model.list_desc(d)
                        yield op
                else:
                    free = [b for b in m.sorted_bonds() if B(*b) not in m.bchange]
                    d = self.bond_desc(m, bond=rng.choice(free), allow_none=False) if free else None
                    if d:
                        op = dict(k="set_bchange", s=g1, broken=None, fleeting=None, formed=None)
                        op[role] = model.list_desc(d)
                        yield op
            if self.w.graph(g1) is None:
                return
            m1 = self.w.slots[g1].model
        r = rng.random()
        g2 = g1
        if r < 0.45 and self.room():
            # a relabelled / copied partner: many isomorphisms
            g2 = self.slot_id()
            if rng.random() < 0.6:
                yield dict(k="relabel", src=g1, dst=g2, map=self.rand_mapping(m1, total=True), copy=True)
            else:
                yield dict(k="copy", src=g1, dst=g2)
            if self.w.graph(g2) is None:
                g2 = g1
            elif rng.random() < 0.25:
                yield self.rand_mutator(g2)
        elif r < 0.6:
            same = [x for x in c if x != g1 and self.w.graph(x) is not None and self.w.slots[x].model.kind == m1.kind]
            if same:
                g2 = rng.choice(same)
        if self.w.graph(g1) is None or self.w.graph(g2) is None:
            return
        m1 = self.w.slots[g1].model
        m2 = self.w.slots[g2].model
        stereo = m1.is_stereo and m2.is_stereo and rng.random() < 0.7
        changes = stereo and m1.has_changes and m2.has_changes and rng.random() < 0.7
        e = self.slot_id()
        lab = rng.choice((None, None, None, "coarse", "degree", "marked"))
        if lab == "marked":
            lab = f"marked:{rng.randrange(12)}:{rng.randrange(12)}"
        yield dict(k="enum_open", g1=g1, g2=g2, dst=e, stereo=stereo, changes=changes, labels=lab)
        if e not in self.w.slots:
            return
        # consume lazily; the scheduler interleaves other callers in between
        cancel_at = rng.choice((None, None, None, 1, 2, 5))
        n = 0
        total = self.w.slots[e].data.get("n_oracle", 0) + 1
        while e in self.w.slots and n < min(total, 60):
            step = rng.choice((1, 1, 2, 4))
            yield dict(k="gen_next", g=e, n=step, tamper=rng.choice((None, None, "clear", "mutate")))
            n += step
            if cancel_at is not None and n >= cancel_at:
                yield dict(k="gen_close", g=e, how=rng.choice(("close", "throw", "drop", "labels")))
                return
        if e in self.w.slots:
            yield dict(k="gen_drain", g=e, tamper=None)
            yield dict(k="gen_close", g=e, how="close")

    def tx_symnum(self):
        c = self.graphs(kinds=("SMG",), nonempty=True)
        if not c:
            yield from self.tx_build(kind="SMG") if "SMG" in self.cfg["classes"] else iter(())
            return
        yield dict(k="symnum", s=self.rng.choice(c))

    def tx_enant(self):
        rng = self.rng
        if rng.random() < 0.3:
            # a molecule that is certainly chiral (or has one E/Z unit)
            before = set(self.w.slots)
            yield from self.tx_unit_molecule(parity_none=False)
            new = [x for x in self.graphs(kinds=("SMG",)) if x not in before]
            if new:
                s = new[-1]
                if rng.random() < 0.5 and self.room() and "SCRG" in self.cfg["classes"]:
                    d = self.slot_id()
                    yield dict(k="ctor", src=s, dst=d, cls="SCRG")
                    sl = self.w.graph(d)
                    if sl is not None and sl.model.astereo and rng.random() < 0.7:
                        # move the static descriptor into a stereo change
                        a = sorted(sl.model.astereo)[0]
                        dsc = sl.model.astereo[a]
                        op = dict(k="set_achange", s=d, broken=None, fleeting=None, formed=None)
                        op[rng.choice(ROLES).lower()] = model.list_desc(dsc)
                        yield dict(k="del_astereo", s=d, a=a)
                        yield op
                    if self.w.graph(d) is not None:
                        s = d
                yield dict(k="probe_enant", s=s)
            return
        if rng.random() < 0.18 and self.room():
            # one crowded centre (4 to 6 ligands, elements drawn with
            # repetition: chiral and achiral arrangements both occur), static
            # or inside a stereo change
            deg = rng.choice((4, 5, 5, 6, 6))
            dcls = {4: rng.choice(("Tetrahedral", "SquarePlanar")), 5: "TrigonalBipyramidal", 6: "Octahedral"}[deg]
            ids = list(self.cfg["ids"])
            while len(ids) < deg + 1:
                ids.append(max(ids) + 1)
            ids = rng.sample(ids, deg + 1)
            c0, lig = ids[0], ids[1:]
            pool_ = rng.sample([1, 9, 17, 35, 53, 8], rng.choice((1, 2, 2, 3, 4)))
            atoms = [[c0, rng.choice((6, 15, 16, 26, 78))]] + [[x, rng.choice(pool_)] for x in lig]
            bonds = [[c0, x, None] for x in lig]
            rng.shuffle(lig)
            d = [dcls, [c0, *lig], rng.choice((1, -1)) if geom.CHIRAL[dcls] else 0]
            s = self.slot_id()
            yield dict(k="spec", dst=s, cls="SMG", atoms=atoms, bonds=bonds, astereo=[d])
            if self.w.graph(s) is None:
                return
            if "SCRG" in self.cfg["classes"] and self.room() and rng.random() < 0.6:
                t = self.slot_id()
                yield dict(k="ctor", src=s, dst=t, cls="SCRG")
                if self.w.graph(t) is not None:
                    if rng.random() < 0.75:
                        op = dict(k="set_achange", s=t, broken=None, fleeting=None, formed=None)
                        op[rng.choice(ROLES).lower()] = d
                        if rng.random() < 0.3:
                            lig2 = list(lig)
                            rng.shuffle(lig2)
                            other = [r_ for r_ in ROLES if op[r_.lower()] is None]
                            op[rng.choice(other).lower()] = [dcls, [c0, *lig2], d[2]]
                        yield dict(k="del_astereo", s=t, a=c0)
                        yield op
                    s = t
            if self.w.graph(s) is not None:
                yield dict(k="probe_enant", s=s)
                if rng.random() < 0.5:
                    yield dict(k="probe_twin", s=s, seed=rng.randrange(2 ** 31), route=rng.choice(("fresh", "relabel")))
                    yield dict(k="probe_enant", s=s)
            return
        c = self.graphs(kinds=("SMG", "SCRG"), nonempty=True)
        if not c:
            yield from self.tx_build()
            return
        s = rng.choice(c)
        sl0 = self.w.graph(s)
        if sl0 is not None and sl0.model.kind == "SCRG" and sl0.model.role_consistent() and self.room() and rng.random() < 0.35:
            # the mirror image of an extracted reactant / product
            d0 = self.slot_id()
            yield dict(k=rng.choice(("reactant", "product")), src=s, dst=d0, keep=True, after=None)
            if self.w.graph(d0) is not None:
                s = d0
        yield dict(k="probe_enant", s=s)
        if rng.random() < 0.4 and self.w.graph(s) is not None:
            # once more, now that the graph has been an operand of comparisons
            yield dict(k="probe_enant", s=s)
        if self.room() and rng.random() < 0.6:
            d = self.slot_id()
            yield dict(k="enantiomer", src=s, dst=d)
            if self.w.graph(d) is None:
                return
            for _ in range(rng.randint(0, 3)):
                side = rng.choice((s, d))
                sl = self.w.graph(side)
                if sl is not None and not sl.locks:
                    yield self.rand_mutator(side)
            if self.room() and rng.random() < 0.5:
                d2 = self.slot_id()
                yield dict(k="enantiomer", src=d, dst=d2)
                if self.w.graph(d2) is not None:
                    yield dict(k="probe_pair", s1=s, s2=d2)
            yield dict(k="probe_pair", s1=s, s2=d)
            if rng.random() < 0.5 and self.w.graph(d) is not None and not self.w.slots[d].locks:
                yield dict(k="drop", s=d)

    def tx_react(self):
        """siblings R, TS, P from one ancestor, independent edits keeping the
        atom set, then condense / decompose / reverse"""
        rng = self.rng
        stereo = rng.random() < 0.7 and ("SCRG" in self.cfg["classes"] or "SMG" in self.cfg["classes"])
        base_kind = "SMG" if stereo else "MG"
        if len(self.w.slots) + 5 > self.w.max_slots:
            # free some room
            for s in self.graphs(unlocked=True)[:4]:
                yield dict(k="drop", s=s)
        anc = self.slot_id()
        for op in self.tx_build(kind=base_kind, size=rng.randint(3, max(3, self.cfg["max_atoms"])),
                                motif=rng.choice(("star", "tetra4", "ez", "ring", "chain", "random"))):
            op = dict(op)
            if "dst" in op and op["k"] == "new":
                op["dst"] = anc
            if "s" in op:
                op["s"] = anc
            yield op
        if self.w.graph(anc) is None or not self.w.slots[anc].model.atoms:
            return
        if stereo:
            # decorate the ancestor so that descriptors are shared by R, TS and P
            for _ in range(rng.randint(1, 6)):
                sl = self.w.graph(anc)
                if sl is None:
                    return
                m = sl.model
                free_a = [a for a in m.sorted_atoms() if a not in m.astereo]
                free_b = [b for b in m.sorted_bonds() if B(*b) not in m.bstereo]
                d = None
                if free_a and rng.random() < 0.65:
                    d = self.atom_desc(m, centre=rng.choice(free_a), cls=rng.choice(geom.ATOM_CLASSES),
                                       allow_none=rng.random() < 0.1)
                    if d:
                        yield dict(k="set_astereo", s=anc, d=model.list_desc(d))
                elif free_b:
                    d = self.bond_desc(m, bond=rng.choice(free_b), cls=rng.choice(geom.BOND_CLASSES),
                                       allow_none=rng.random() < 0.1)
                    if d:
                        yield dict(k="set_bstereo", s=anc, d=model.list_desc(d))
        r, p, ts = self.slot_id(), self.slot_id(), self.slot_id()
        yield dict(k="copy", src=anc, dst=r)
        yield dict(k="copy", src=anc, dst=p)
        use_ts = rng.random() < 0.6
        for side in (r, p):
            for _ in range(rng.randint(0, 5)):
                sl = self.w.graph(side)
                if sl is None:
                    return
                yield self.struct_edit(side, sl.model)
        if use_ts:
            # TS = union of R and P bonds (+ maybe fleeting extras), own stereo
            yield dict(k="compose", srcs=[r, p] if rng.random() < 0.5 else [p, r], dst=ts, cls=base_kind, **{"as": "list"})
            for _ in range(rng.randint(0, 4)):
                sl = self.w.graph(ts)
                if sl is None:
                    return
                yield self.struct_edit(ts, sl.model, add_only=True)
        if rng.random() < 0.4 and self.room():
            # the same product (reactant) with its atoms inserted in another order
            which = rng.choice((r, p))
            sl = self.w.graph(which)
            if sl is not None and sl.model.buildable():
                order = sl.model.sorted_atoms()
                rng.shuffle(order)
                d = self.slot_id()
                yield dict(k="subgraph", src=which, dst=d, atoms=order, **{"as": "list"})
                if self.w.graph(d) is not None:
                    if which == r:
                        r = d
                    else:
                        p = d
        if use_ts and stereo and rng.random() < 0.35:
            sr, st = self.w.graph(r), self.w.graph(ts)
            if sr is not None and st is not None and sr.model.astereo:
                a = rng.choice(sorted(sr.model.astereo))
                d = sr.model.astereo[a]
                if a in st.model.atoms:
                    yield dict(k="set_astereo", s=ts, d=model.list_desc((d[0], d[1], None)))
        kind = "SCRG" if stereo and rng.random() < 0.85 else "CRG"
        rx = self.slot_id()
        yield dict(k="from_graphs", r=r, p=p, ts=ts if use_ts else None, dst=rx, cls=kind)
        if self.w.graph(rx) is None:
            return
        for q in ("get_formed_bonds", "get_broken_bonds", "get_fleeting_bonds", "active_atoms"):
            if rng.random() < 0.4:
                yield dict(k="q", s=rx, q=q, layer=0)
        if kind == "SCRG" and rng.random() < 0.5:
            # hand-made changes (several roles on one centre) before decomposing / reversing
            for _ in range(rng.randint(1, 3)):
                sl = self.w.graph(rx)
                if sl is None:
                    return
                op = self.change_op(rx, sl.model, rng.choice(("set_achange", "set_bchange")))
                if op:
                    yield op
        if rng.random() < 0.5:
            # hashing / comparing builds reactant, product and transition state
            # internally; decomposition afterwards must still be faithful
            yield dict(k="q", s=rx, q=rng.choice(("hash", "eq_self")))
        seq = []
        for _ in range(rng.randint(1, 4)):
            seq.append(rng.choice(("reactant", "product", "reverse", "reverse2")))
        for k in seq:
            if not self.room():
                break
            d = self.slot_id()
            if k in ("reactant", "product"):
                sl_ = self.w.graph(rx)
                after = rng.choice((None, None, "hash", "eq")) if sl_ is not None and sl_.model.sane() else None
                yield dict(k=k, src=rx, dst=d, keep=rng.random() < 0.7, after=after)
                if self.w.graph(d) is not None:
                    yield dict(k="probe_pair", s1=d, s2=r if k == "reactant" else p)
                    yield dict(k="drop", s=d)
            elif k == "reverse":
                yield dict(k="reverse", src=rx, dst=d)
                if self.w.graph(d) is not None:
                    if rng.random() < 0.5:
                        yield dict(k="probe_pair", s1=d, s2=rx)
                    if rng.random() < 0.5:
                        yield self.rand_mutator(d)
                    yield dict(k="drop", s=d)
            else:
                d2 = self.slot_id()
                yield dict(k="reverse", src=rx, dst=d)
                if self.w.graph(d) is not None and self.room():
                    yield dict(k="reverse", src=d, dst=d2)
                    if self.w.graph(d2) is not None:
                        yield dict(k="probe_pair", s1=rx, s2=d2)
                        yield dict(k="drop", s=d2)
                    yield dict(k="drop", s=d)
        if kind == "SCRG" and rng.random() < 0.3 and len(self.w.slots) + 3 <= self.w.max_slots and self.w.graph(rx) is not None:
            d1, e1, d2 = self.slot_id(), self.slot_id(), self.slot_id()
            yield dict(k="reverse", src=rx, dst=d1)
            yield dict(k="enantiomer", src=rx, dst=e1)
            if self.w.graph(e1) is not None:
                yield dict(k="reverse", src=e1, dst=d2)
            for x in (d1, e1, d2):
                if x in self.w.slots:
                    yield dict(k="drop", s=x)
        # a few edits on the reaction graph itself keep the history going
        for _ in range(rng.randint(0, 3)):
            sl = self.w.graph(rx)
            if sl is not None and not sl.locks:
                yield self.rand_mutator(rx)
        for s in (anc, r, p, ts):
            if s in self.w.slots and rng.random() < 0.7 and not self.w.slots[s].locks:
                yield dict(k="drop", s=s)

    def struct_edit(self, s, m, add_only=False):
        """edit that keeps the atom set: bonds and descriptors only"""
        rng = self.rng
        ch = ["add_bond"] * 2 + (["remove_bond"] if not add_only else [])
        if m.is_stereo:
            ch += ["set_astereo", "set_bstereo", "flip", "reclass"] + ([] if add_only else ["del_astereo", "del_bstereo"])
        k = rng.choice(ch)
        ats = m.sorted_atoms()
        if k == "add_bond" and len(ats) >= 2:
            nb = m.neighbours()
            free = [(x, y) for i, x in enumerate(ats) for y in ats[i + 1:]
                    if B(x, y) not in m.bonds and len(nb[x]) < 6 and len(nb[y]) < 6]
            if free:
                x, y = rng.choice(free)
                return dict(k="add_bond", s=s, a=x, b=y, kw={})
        if k == "remove_bond" and m.bonds:
            plain = [b for b in m.sorted_bonds() if B(*b) not in m.bstereo]
            x, y = rng.choice(plain) if plain and rng.random() < 0.7 else self.present_bond(m)
            if B(x, y) in m.bstereo and rng.random() < 0.7:
                return dict(k="del_bstereo", s=s, a=x, b=y)
            return dict(k="remove_bond", s=s, a=x, b=y)   # may leave the bond's descriptor behind
        if k in ("set_astereo", "reclass"):
            d = self.atom_desc(m, cls=rng.choice(geom.ATOM_CLASSES) if k == "reclass" else None)
            if d:
                return dict(k="set_astereo", s=s, d=model.list_desc(d))
        if k == "set_bstereo":
            d = self.bond_desc(m)
            if d:
                return dict(k="set_bstereo", s=s, d=model.list_desc(d))
        if k == "flip" and (m.astereo or m.bstereo):
            if m.astereo and (not m.bstereo or rng.random() < 0.6):
                a = rng.choice(sorted(m.astereo))
                d = m.astereo[a]
                lig = list(d[1][1:])
                i, j = rng.sample(range(len(lig)), 2)
                lig[i], lig[j] = lig[j], lig[i]
                return dict(k="set_astereo", s=s, d=model.list_desc((d[0], (d[1][0], *lig), d[2])))
            b = rng.choice(sorted(m.bstereo, key=lambda x: tuple(sorted(x))))
            d = m.bstereo[b]
            at = list(d[1])
            at[4], at[5] = at[5], at[4]
            return dict(k="set_bstereo", s=s, d=model.list_desc((d[0], tuple(at), d[2])))
        if k == "del_astereo" and m.astereo:
            return dict(k="del_astereo", s=s, a=rng.choice(sorted(m.astereo)))
        if k == "del_bstereo" and m.bstereo:
            b = rng.choice(sorted(tuple(sorted(x)) for x in m.bstereo))
            return dict(k="del_bstereo", s=s, a=b[0], b=b[1])
        return dict(k="q", s=s, q="len")

    def tx_persist(self):
        rng = self.rng
        c = self.graphs()
        if not c or len(self.w.slots) + 2 > self.w.max_slots:
            yield from self.tx_build()
            return
        s = rng.choice(c)
        t = self.slot_id()
        yield dict(k="serialize", src=s, dst=t, reencode=rng.choice((None, None, "sort", "indent", "compact")))
        if t not in self.w.slots:
            return
        alive = self.w.graph(s) is not None and not self.w.slots[s].locks
        if alive and rng.random() < 0.5:
            yield dict(k="drop", s=s)        # loss of the object; durable text survives
        elif alive and rng.random() < 0.5:
            yield self.rand_mutator(s)       # the original moves on
        if alive and self.w.graph(s) is not None and rng.random() < 0.35 and len(self.w.slots) + 3 <= self.w.max_slots:
            # persist an isomorphic graph with other identifiers in between
            m = self.w.slots[s].model
            tw, tt, td = self.slot_id(), self.slot_id(), self.slot_id()
            if rng.random() < 0.5 and not self.w.slots[s].locks:
                yield dict(k="relabel", src=s, dst=None, map=self.rand_mapping(m, total=True), copy=False)
                tw = s
            else:
                yield dict(k="relabel", src=s, dst=tw, map=self.rand_mapping(m, total=True), copy=True)
            if self.w.graph(tw) is not None:
                yield dict(k="serialize", src=tw, dst=tt, reencode=None)
                yield dict(k="deserialize", src=tt, dst=td)
                yield dict(k="drop", s=tt)
                if td in self.w.slots and rng.random() < 0.7:
                    yield dict(k="drop", s=td)
        if rng.random() < 0.25:
            # the text comes back damaged first (and is read again, intact)
            yield dict(k="restore_damaged", src=t, how=rng.choice(("class", "class", "short", "short", "cut")), at=rng.randrange(8))
        d = self.slot_id()
        yield dict(k="deserialize", src=t, dst=d)
        if rng.random() < 0.4 and self.room():
            if rng.random() < 0.6:
                for _ in range(rng.randint(1, 3)):       # the first restored graph moves on ...
                    sl = self.w.graph(d)
                    if sl is not None and not sl.locks:
                        yield self.rand_mutator(d)
            d2 = self.slot_id()
            yield dict(k="deserialize", src=t, dst=d2)   # ... and the same text is restored again
        yield dict(k="drop", s=t)
        for _ in range(rng.randint(0, 3)):
            sl = self.w.graph(d)
            if sl is not None and not sl.locks:
                yield self.rand_mutator(d) if rng.random() < 0.7 else self.rand_query(d)

    def tx_algebra(self):
        rng = self.rng
        c = self.graphs()
        if not c or not self.room():
            yield from self.tx_build()
            return
        if rng.random() < 0.08:
            yield self.bad_derive(c)
            c = self.graphs()
            if not c or not self.room():
                return
        s = rng.choice(c)
        m = self.w.slots[s].model
        r = rng.random()
        if r < 0.45:
            ats = m.sorted_atoms()
            mode = rng.randrange(5)
            cuts0 = self.cut_sets(m) if m.has_changes else []
            if cuts0 and rng.random() < 0.5:
                S = list(rng.choice(cuts0))
            elif mode == 4 and m.bonds:
                # a small connected cut-out (a bond and maybe a neighbour)
                x, y = self.present_bond(m)
                S = [x, y] + [z for z in sorted(m.nbrs(x) | m.nbrs(y)) if z not in (x, y) and rng.random() < 0.3][:2]
            elif mode == 0 or mode == 4:
                S = [a for a in ats if rng.random() < 0.6]
                cuts = self.cut_sets(m) if m.has_changes else []
                if cuts and rng.random() < 0.6:
                    S = list(rng.choice(cuts))
            elif mode == 1 and m.atoms:
                S = sorted(rng.choice(m.components()))
            elif mode == 2:
                S = list(ats)
            else:
                S = [a for a in ats if rng.random() < 0.85]
            rng.shuffle(S)
            how = rng.choice(("list", "set", "tuple", "iter", "gen"))
            if S and how != "set" and rng.random() < 0.15:
                # an iterable that names atoms more than once (the end atoms of
                # a list of bonds, say); sometimes as long as the graph is large
                extra = [rng.choice(S) for _ in range(rng.randint(1, 3))]
                if len(S) < len(ats) and rng.random() < 0.5:
                    extra = [rng.choice(S) for _ in range(len(ats) - len(S))]
                S = S + extra
                rng.shuffle(S)
            d = self.slot_id()
            yield dict(k="subgraph", src=s, dst=d, atoms=S, **{"as": how})
            if self.w.graph(d) is not None:
                for _ in range(rng.randint(0, 3)):
                    sl = self.w.graph(d)
                    if sl is not None:
                        yield self.rand_mutator(d) if rng.random() < 0.6 else self.rand_query(d)
        elif r < 0.7:
            # compose the component subgraphs back together
            comps = [sorted(x) for x in m.components()]
            rng.shuffle(comps)
            parts = []
            for comp in comps[:4]:
                if not self.room():
                    break
                d = self.slot_id()
                yield dict(k="subgraph", src=s, dst=d, atoms=comp, **{"as": rng.choice(("list", "set", "gen"))})
                if self.w.graph(d) is not None:
                    parts.append(d)
            if parts and self.room() and len(parts) == len(comps):
                for x in parts:
                    if rng.random() < 0.6 and self.w.graph(x) is not None:
                        yield dict(k="q", s=x, q="connected_components")      # the pieces have been asked before
                d = self.slot_id()
                yield dict(k="compose", srcs=parts, dst=d, cls=m.kind, **{"as": rng.choice(("list", "tuple", "gen"))})
                if self.w.graph(d) is not None:
                    yield dict(k="probe_pair", s1=s, s2=d)
                    yield dict(k="q", s=d, q="connected_components")
                    if rng.random() < 0.5 and self.w.graph(d) is not None and not self.w.slots[d].locks:
                        md = self.w.slots[d].model
                        yield dict(k="relabel", src=d, dst=None, map=self.rand_mapping(md), copy=False)
                        for x in parts[:2]:
                            if self.w.graph(x) is not None:
                                yield dict(k="q", s=x, q="connected_components")
            for d in parts:
                if rng.random() < 0.8 and d in self.w.slots:
                    yield dict(k="drop", s=d)
        elif r < 0.8 and m.has_changes and (m.achange or m.bchange) and len(self.w.slots) + 3 <= self.w.max_slots:
            # two overlapping pieces that disagree about a stereo change; one of
            # them has been cut before (whatever it memoised must not travel)
            d = self.slot_id()
            yield dict(k="copy", src=s, dst=d)
            sl = self.w.graph(d)
            if sl is None:
                return
            dropped = None
            if m.achange and rng.random() < 0.7:
                # the same centre as in s, but one ligand exchanged for another atom
                c0 = rng.choice(sorted(m.achange))
                r0 = rng.choice(sorted(m.achange[c0]))
                d0 = m.achange[c0][r0]
                lig = list(d0[1][1:])
                real = [i for i, x in enumerate(lig) if x is not None]
                others = [a for a in m.sorted_atoms() if a != c0 and a not in lig]
                if real and others:
                    j = rng.choice(real)
                    dropped = lig[j]
                    lig[j] = rng.choice(others)
                    op = dict(k="set_achange", s=d, broken=None, fleeting=None, formed=None)
                    op[rng.choice(ROLES).lower()] = model.list_desc((d0[0], (c0, *lig), d0[2]))
                    yield op
            else:
                for _ in range(rng.randint(1, 2)):
                    op = self.change_op(d, sl.model, rng.choice(("set_achange", "set_bchange")))
                    if op:
                        yield op
            q = self.slot_id()
            yield dict(k="subgraph", src=rng.choice((s, d)), dst=q, atoms=m.sorted_atoms(), **{"as": "list"})
            if q in self.w.slots:
                yield dict(k="drop", s=q)
            if self.w.graph(s) is None or self.w.graph(d) is None or not self.room():
                return
            e = self.slot_id()
            srcs = [s, d] if rng.random() < 0.5 else [d, s]
            yield dict(k="compose", srcs=srcs, dst=e, cls=m.kind, **{"as": "list"})
            sle = self.w.graph(e)
            if sle is not None:
                me = sle.model
                cuts = self.cut_sets(me)
                S = list(rng.choice(cuts)) if cuts and rng.random() < 0.4 else me.sorted_atoms()
                if dropped is not None and dropped in me.atoms and rng.random() < 0.6:
                    S = [a for a in me.sorted_atoms() if a != dropped]
                for S_ in (S, me.sorted_atoms()):
                    f = self.slot_id()
                    if self.room():
                        yield dict(k="subgraph", src=e, dst=f, atoms=list(S_), **{"as": rng.choice(("list", "set"))})
                        if f in self.w.slots:
                            yield dict(k="drop", s=f)
            for x in (d, e):
                if x in self.w.slots and not self.w.slots[x].locks:
                    yield dict(k="drop", s=x)
        elif r < 0.9:
            others = [x for x in c if x != s]
            srcs = [s] + (rng.sample(others, min(len(others), rng.randint(1, 3))) if others else [])
            rng.shuffle(srcs)
            kind = m.kind if rng.random() < 0.8 else rng.choice(model.KINDS)
            d = self.slot_id()
            yield dict(k="compose", srcs=srcs, dst=d, cls=kind, **{"as": rng.choice(("list", "tuple", "gen"))})
            if self.w.graph(d) is not None:
                for _ in range(rng.randint(0, 3)):
                    sl = self.w.graph(d)
                    if sl is not None:
                        yield self.rand_mutator(d) if rng.random() < 0.6 else self.rand_query(d)
        else:
            yield dict(k="q", s=s, q="connected_components")
            a = self.present_atom(m)
            if a is not None:
                yield dict(k="q", s=s, q="node_connected_component", a=a)

    def tx_flip(self):
        rng = self.rng
        c = self.graphs(kinds=("SMG",), nonempty=True)
        if not c or rng.random() < 0.4:
            yield from self.tx_unit_molecule(parity_none=False)
            return
        yield dict(k="probe_flip", s=rng.choice(c), seed=rng.randrange(2 ** 31))

    def tx_unit_molecule(self, parity_none):
        """plant a molecule with exactly one stereogenic unit of a stated kind"""
        rng = self.rng
        if not self.room():
            for s in self.graphs(unlocked=True)[:2]:
                yield dict(k="drop", s=s)
        s = self.slot_id()
        yield dict(k="new", dst=s, cls="SMG")
        pool = [1, 6, 7, 8, 9, 17, 35]
        ids = list(self.cfg["ids"])
        while len(ids) < 9:
            ids.append(max(ids) + 1)
        rng.shuffle(ids)
        if rng.random() < 0.5:
            els = rng.sample(pool, 4)
            c = ids[0]
            yield dict(k="add_atom", s=s, a=c, t=rng.choice((6, 6, 7, 15)), kw={})
            lig = ids[1:5]
            for a, z in zip(lig, els):
                yield dict(k="add_atom", s=s, a=a, t=z, kw={})
                yield dict(k="add_bond", s=s, a=c, b=a, kw={})
            extra = ids[5:5 + rng.randint(0, 2)]
            prev = lig[rng.randrange(4)]
            for a in extra:
                yield dict(k="add_atom", s=s, a=a, t=rng.choice(pool), kw={})
                yield dict(k="add_bond", s=s, a=prev, b=a, kw={})
                prev = a
            order = list(lig)
            rng.shuffle(order)
            par = None if parity_none else rng.choice((1, -1))
            yield dict(k="set_astereo", s=s, d=["Tetrahedral", [c, *order], par])
            unit = ("astereo", c)
        else:
            x, y = ids[0], ids[1]
            yield dict(k="add_atom", s=s, a=x, t=6, kw={})
            yield dict(k="add_atom", s=s, a=y, t=6, kw={})
            yield dict(k="add_bond", s=s, a=x, b=y, kw={})
            e1 = rng.sample(pool, 2)
            e2 = rng.sample(pool, 2) if rng.random() < 0.6 else list(e1)   # XYC=CXY: converges in one round
            subs = ids[2:6]
            for a, z, c in zip(subs, e1 + e2, (x, x, y, y)):
                yield dict(k="add_atom", s=s, a=a, t=z, kw={})
                yield dict(k="add_bond", s=s, a=c, b=a, kw={})
            extra = ids[6:6 + rng.randint(0, 1)]
            for a in extra:
                yield dict(k="add_atom", s=s, a=a, t=rng.choice(pool), kw={})
                yield dict(k="add_bond", s=s, a=subs[rng.randrange(4)], b=a, kw={})
            l = [subs[0], subs[1]]
            r_ = [subs[2], subs[3]]
            rng.shuffle(l)
            rng.shuffle(r_)
            at = [l[0], l[1], x, y, r_[0], r_[1]]
            if rng.random() < 0.5:
                at = [r_[0], r_[1], y, x, l[0], l[1]]
            yield dict(k="set_bstereo", s=s, d=["PlanarBond", at, None if parity_none else 0])
        yield dict(k="probe_flip", s=s, seed=rng.randrange(2 ** 31))

    def tx_isomers(self):
        rng = self.rng
        yield from self.tx_unit_molecule(parity_none=True)
        c = self.graphs(kinds=("SMG",), nonempty=True)
        if not c or not self.room():
            return
        s = c[-1]
        e = self.slot_id()
        yield dict(k="isomers_open", src=s, dst=e)
        if e not in self.w.slots:
            return
        cancel = rng.random() < 0.2
        for i in range(4):
            if e not in self.w.slots:
                break
            yield dict(k="gen_next", g=e, n=1, tamper=rng.choice((None, None, "edit")))
            if cancel and i == 0:
                yield dict(k="gen_close", g=e, how=rng.choice(("close", "throw", "drop", "labels")))
                break
        if e in self.w.slots:
            yield dict(k="gen_close", g=e, how="close")

    # ------------------------------------------------------------------
    def pick_tx(self):
        tx = self.cfg["tx"]
        names = sorted(k for k, v in tx.items() if v > 0)
        weights = [tx[k] for k in names]
        name = self.rng.choices(names, weights)[0]
        return getattr(self, "tx_" + name)()

    def generate(self):
        rng = self.rng
        n = self.cfg["callers"]
        callers = [self.tx_build() for _ in range(n)]
        budget = self.cfg["steps"]
        guard = 0
        while len(self.ops) < budget and guard < budget * 20:
            guard += 1
            i = rng.randrange(n)
            try:
                op = next(callers[i])
            except StopIteration:
                callers[i] = self.pick_tx()
                continue
            if op is None:
                continue
            op = dict(op)
            op["c"] = i
            self.fix(op)
            self.emit(op)
        # quiesce: finish every open generator so that final checks run
        for s, sl in sorted(self.w.slots.items()):
            if sl.kind == "gen" and not sl.data.get("done"):
                self.emit(dict(k="gen_drain", g=s, tamper=None, c=0))
                self.emit(dict(k="gen_close", g=s, how="close", c=0))
        return self.ops

    def fix(self, op):
        if op["k"] == "remove_bond" and "b" in op and op["b"] is None:
            op["b"] = op["a"]


def generate(seed, prof_name, tier="quick"):
    g = Gen(seed, prof_name, tier)
    ops = g.generate()
    return g.cfg, ops, g.w
