"""Brute-force isomorphism on the reference model (DESIGN 3.6)."""
from __future__ import annotations

from . import geom
from .model import RefGraph, ROLES

MAX_ATOMS = 12
MAX_NODES = 150_000     # search-tree budget; beyond it the oracle abstains


class BudgetExceeded(Exception):
    pass


def _desc_sets(m: RefGraph, stereo: bool, changes: bool):
    """list of (tag, desc) for every descriptor that has to be preserved"""
    out = []
    if stereo:
        for _a, d in m.astereo.items():
            out.append(("S", d))
        for _b, d in m.bstereo.items():
            out.append(("S", d))
    if changes:
        for _a, t in m.achange.items():
            for r, d in t.items():
                out.append((r, d))
        for _b, t in m.bchange.items():
            for r, d in t.items():
                out.append((r, d))
    return out


def applicable(m1: RefGraph, m2: RefGraph, stereo=True, changes=True):
    """exact oracle validity: small, sane, fully specified"""
    if len(m1.atoms) > MAX_ATOMS or len(m2.atoms) > MAX_ATOMS:
        return False
    for m in (m1, m2):
        if (stereo or changes) and not m.sane():
            return False
        for tag, d in _desc_sets(m, stereo, changes):
            if d[2] is None:
                return False
    return True


def isomorphisms(m1: RefGraph, m2: RefGraph, *, labels=None, stereo=False,
                 changes=False, roles=False, first_only=False, limit=None):
    """all bijections atoms(m1)->atoms(m2) preserving label, adjacency
    (bond counts equal), optionally bond roles, descriptors (up to the
    geometric relation) and stereo changes (per role)."""
    a1 = sorted(m1.atoms)
    a2 = sorted(m2.atoms)
    if len(a1) != len(a2) or len(m1.bonds) != len(m2.bonds):
        return []
    if labels is None:
        l1 = {a: m1.atoms[a]["atom_type"] for a in a1}
        l2 = {a: m2.atoms[a]["atom_type"] for a in a2}
    else:
        l1, l2 = labels
    if sorted(l1.values()) != sorted(l2.values()):
        return []
    n1, n2 = m1.neighbours(), m2.neighbours()
    d1 = _desc_sets(m1, stereo, changes)
    d2 = _desc_sets(m2, stereo, changes)
    if len(d1) != len(d2):
        return []
    c2 = {}
    for tag, d in d2:
        key = (tag, geom.canon(d))
        c2[key] = c2.get(key, 0) + 1
    out = []
    mapping = {}
    used = set()
    # order: most constrained first (BFS-free; sizes are tiny)
    order = sorted(a1, key=lambda a: (-len(n1[a]), a))

    def role_ok(x, y):
        if not roles:
            return True
        return m1.bonds[frozenset((x[0], x[1]))].get("reaction") == \
            m2.bonds[frozenset((y[0], y[1]))].get("reaction")

    def final_ok():
        if not d1:
            return True
        need = dict(c2)
        f = mapping.__getitem__
        for tag, d in d1:
            key = (tag, geom.canon(geom.map_desc(d, f)))
            if need.get(key, 0) <= 0:
                return False
            need[key] -= 1
        return True

    nodes = [0]

    def rec(i):
        nodes[0] += 1
        if nodes[0] > MAX_NODES:
            raise BudgetExceeded()
        if limit is not None and len(out) >= limit:
            return
        if i == len(order):
            if final_ok():
                out.append(dict(mapping))
            return
        u = order[i]
        for v in a2:
            if v in used or l1[u] != l2[v] or len(n1[u]) != len(n2[v]):
                continue
            ok = True
            for w in n1[u]:
                if w in mapping:
                    if mapping[w] not in n2[v]:
                        ok = False
                        break
                    if not role_ok((u, w), (v, mapping[w])):
                        ok = False
                        break
            if not ok:
                continue
            # non-neighbours must stay non-neighbours (bond counts equal and
            # degrees equal make this automatic at the end, check early)
            cnt = sum(1 for w in n1[u] if w in mapping)
            cnt2 = sum(1 for w in n2[v] if w in used)
            if cnt != cnt2:
                continue
            mapping[u] = v
            used.add(v)
            rec(i + 1)
            del mapping[u]
            used.discard(v)
            if first_only and out:
                return

    rec(0)
    return out


def valid_mapping(m1: RefGraph, m2: RefGraph, mapping: dict, *, labels=None,
                  stereo=False, changes=False):
    """is `mapping` a structure-preserving bijection atoms(m1)->atoms(m2)?
    (any size; used where the exhaustive oracle abstains)"""
    if set(mapping) != set(m1.atoms) or set(mapping.values()) != set(m2.atoms):
        return False
    if len(set(mapping.values())) != len(mapping) or len(m1.bonds) != len(m2.bonds):
        return False
    if labels is None:
        if any(m1.atoms[a]["atom_type"] != m2.atoms[b]["atom_type"] for a, b in mapping.items()):
            return False
    else:
        l1, l2 = labels
        if any(l1[a] != l2[b] for a, b in mapping.items()):
            return False
    for b in m1.bonds:
        if frozenset(mapping[x] for x in b) not in m2.bonds:
            return False
    d1 = _desc_sets(m1, stereo, changes)
    d2 = _desc_sets(m2, stereo, changes)
    if len(d1) != len(d2):
        return False
    need = {}
    for tag, d in d2:
        key = (tag, geom.canon(d))
        need[key] = need.get(key, 0) + 1
    f = mapping.__getitem__
    for tag, d in d1:
        key = (tag, geom.canon(geom.map_desc(d, f)))
        if need.get(key, 0) <= 0:
            return False
        need[key] -= 1
    return True


def isomorphic(m1, m2, **kw):
    return bool(isomorphisms(m1, m2, first_only=True, **kw))


def full_equal(m1: RefGraph, m2: RefGraph):
    """the relation `==` is supposed to decide for two graphs of one class;
    None when the search budget is exhausted (oracle abstains)"""
    if m1.kind != m2.kind:
        return False
    labels = None
    if m1.is_reaction and any("reaction" in at for m in (m1, m2) for at in m.atoms.values()):
        # reaction classes compare the atom attribute "reaction" as part of the
        # atom label (crg.py: label_hash(..., ("atom_type", "reaction"))); the
        # properties do not mention it, the oracle follows the library there
        labels = tuple({a: repr((at["atom_type"], at.get("reaction"))) for a, at in m.atoms.items()} for m in (m1, m2))
    try:
        return isomorphic(m1, m2, labels=labels, stereo=m1.is_stereo, changes=m1.has_changes,
                          roles=m1.is_reaction)
    except BudgetExceeded:
        return None


def all_isomorphisms(m1, m2, **kw):
    """list of mappings, or None when the search budget is exhausted"""
    try:
        return isomorphisms(m1, m2, **kw)
    except BudgetExceeded:
        return None


def selftest():
    import itertools
    import random
    from .model import relabel
    # independent formulation: try all n! relabellings and compare views
    rng = random.Random(5)
    els = (6, 8)
    n_checked = 0
    graphs = []
    for n in (1, 2, 3, 4):
        pairs = list(itertools.combinations(range(n), 2))
        for _ in range(60):
            g = RefGraph("SMG")
            for a in range(n):
                g.atoms[a] = {"atom_type": rng.choice(els)}
            for p in pairs:
                if rng.random() < 0.5:
                    g.bonds[frozenset(p)] = {}
            graphs.append(g)
    def canon_view(g):
        best = None
        ats = sorted(g.atoms)
        for perm in itertools.permutations(ats):
            h = relabel(g, dict(zip(ats, perm)))
            key = (tuple(sorted((a, h.atoms[a]["atom_type"]) for a in h.atoms)),
                   tuple(h.sorted_bonds()))
            if best is None or key < best:
                best = key
        return best
    for g in graphs[::3]:
        for h in graphs[::7]:
            if len(g.atoms) != len(h.atoms):
                continue
            assert isomorphic(g, h) == (canon_view(g) == canon_view(h))
            n_checked += 1
    # automorphisms of a 4-ring of one element: 8
    g = RefGraph("MG")
    for a in range(4):
        g.atoms[a] = {"atom_type": 6}
    for a in range(4):
        g.bonds[frozenset((a, (a + 1) % 4))] = {}
    assert len(isomorphisms(g, g)) == 8
    # tetrahedral centre with 4 distinct ligands: not equal to its mirror
    s = RefGraph("SMG")
    for a, z in enumerate((6, 1, 9, 17, 35)):
        s.atoms[a] = {"atom_type": z}
    for a in range(1, 5):
        s.bonds[frozenset((0, a))] = {}
    s.astereo[0] = ("Tetrahedral", (0, 1, 2, 3, 4), 1)
    from .model import enantiomer
    assert not full_equal(s, enantiomer(s))
    s2 = s.clone()
    s2.atoms[2]["atom_type"] = 1  # two H: achiral
    assert full_equal(s2, enantiomer(s2))
    return n_checked
