"""Read-only queries, property probes and suspended generators."""
from __future__ import annotations

import json
import random

from . import brute, geom, model
from .model import B, ROLES, RefGraph
from .world import Slot

HANDLERS = {}


def handler(name):
    def deco(f):
        HANDLERS[name] = f
        return f
    return deco


# ----------------------------------------------------------------------
# helpers

def _call(w, fn, *a, **kw):
    """guarded library call -> ('ok', value) | ('exc', e) | ('hang', None)"""
    R = w.R
    if fn is next:
        # a time-out thrown into a suspended enumeration finishes it: there is
        # no second attempt, so the first one gets the whole budget
        try:
            return ("ok", R.guarded(fn, *a, budget=R.CONFIRM_BUDGET, **kw))
        except R.CallTimeout:
            if w.hang_not_judgeable():
                w.stats["hang_on_factorially_symmetric_input_not_judged"] += 1
                raise w.ExpensiveInput()
            return ("hang", None)
        except Exception as e:  # noqa: BLE001
            return ("exc", e)
    try:
        return ("ok", R.guarded(fn, *a, **kw))
    except R.CallTimeout:
        # re-confirm alone with a larger budget before calling it a hang
        w.stats["slow_call_reconfirmed"] += 1
        w.slow.append((w.step_no, getattr(fn, "__name__", repr(fn))))
        try:
            return ("ok", R.guarded(fn, *a, budget=R.CONFIRM_BUDGET, **kw))
        except R.CallTimeout:
            if w.hang_not_judgeable():
                # a search over a factorially symmetric operand (say ten
                # unbonded atoms of one element and a descriptor that rejects
                # most assignments) legitimately takes this long: no verdict
                w.stats["hang_on_factorially_symmetric_input_not_judged"] += 1
                raise w.ExpensiveInput()
            return ("hang", None)
        except Exception as e:  # noqa: BLE001
            return ("exc", e)
    except Exception as e:  # noqa: BLE001
        return ("exc", e)


def _cls(sl):
    return model.CLASSNAME[sl.model.kind]


def _norm_attrs(d):
    from .real import conv_attr_out
    return {k: conv_attr_out(k, v) for k, v in dict(d).items()}


def _built_ok(w, g, m, what):
    """a graph the harness built from a model must be that model before it is
    used as an operand of an oracle; otherwise editing is broken (C09), not
    the property the probe is about"""
    R = w.R
    try:
        rv, problems = R.guarded(R.snapshot, g, ())
        dd = R.diff_views(rv, m.view())
    except Exception as e:  # noqa: BLE001
        dd, problems = ["unreadable:" + type(e).__name__], []
    if dd or problems:
        w.report({"C09"}, f"{what}|built-graph-incoherent|{','.join(sorted(set(dd) | set(problems)))}|{model.CLASSNAME[m.kind]}", "")
        return False
    return True


# ----------------------------------------------------------------------
# read-only queries

def _answer(m: RefGraph, op):
    """('VAL', v) expected value | ('LOOKUP',) about something absent |
    ('ANY',) not modelled | ('SKIP',)"""
    q = op["q"]
    a = op.get("a")
    b = op.get("b")
    if q == "has_atom":
        return ("VAL", a in m.atoms)
    if q == "has_bond":
        return ("VAL", B(a, b) in m.bonds and a != b)
    if q == "get_atom_attribute":
        if a not in m.atoms:
            return ("LOOKUP",)
        return ("VAL", m.atoms[a].get(op["key"]))
    if q == "get_atom_type":
        if a not in m.atoms:
            return ("LOOKUP",)
        return ("VAL", m.atoms[a]["atom_type"])
    if q == "get_atom_attributes":
        if a not in m.atoms:
            return ("LOOKUP",)
        keys = op.get("keys")
        if keys is None:
            return ("VAL", dict(m.atoms[a]))
        if all(k in m.atoms[a] for k in keys):
            return ("VAL", {k: m.atoms[a][k] for k in keys})
        return ("ANY",)
    if q == "get_bond_attribute":
        if B(a, b) not in m.bonds or a == b:
            return ("LOOKUP",)
        return ("VAL", m.bonds[B(a, b)].get(op["key"]))
    if q == "get_bond_attributes":
        if B(a, b) not in m.bonds or a == b:
            return ("LOOKUP",)
        return ("VAL", dict(m.bonds[B(a, b)]))
    if q in ("bonded_to", "neighbors_index"):
        if a not in m.atoms:
            return ("LOOKUP",)
        return ("VAL", tuple(sorted(m.nbrs(a))))
    if q == "node_connected_component":
        if a not in m.atoms:
            return ("LOOKUP",)
        for c in m.components():
            if a in c:
                return ("VAL", tuple(sorted(c)))
    if q == "connected_components":
        return ("VAL", sorted(tuple(sorted(c)) for c in m.components()))
    if q == "connectivity_matrix":
        return ("VAL", m.sorted_bonds())
    if q in ("len", "n_atoms"):
        return ("VAL", len(m.atoms))
    if q in ("str", "repr", "export", "as_dict", "hash", "is_stereo_valid"):
        if q == "is_stereo_valid" and not m.is_stereo:
            return ("SKIP",)
        return ("ANY",)
    if q == "eq_self":
        return ("VAL", True) if m.sane() else ("ANY",)
    if q == "get_atom_stereo":
        if not m.is_stereo:
            return ("SKIP",)
        if a not in m.atoms:
            return ("LOOKUP",)
        return ("VAL", geom.canon(m.astereo.get(a)))
    if q == "get_bond_stereo":
        if not m.is_stereo:
            return ("SKIP",)
        bd = B(a, b)
        if bd in m.bstereo:
            return ("VAL", geom.canon(m.bstereo[bd]))
        if bd not in m.bonds or a == b:
            return ("LOOKUP",)
        return ("VAL", None)
    if q == "get_atom_stereo_change":
        if not m.has_changes:
            return ("SKIP",)
        if a not in m.atoms:
            return ("LOOKUP",)
        t = m.achange.get(a)
        return ("VAL", {r: geom.canon(d) for r, d in t.items()} if t else None)
    if q == "get_bond_stereo_change":
        if not m.has_changes:
            return ("SKIP",)
        bd = B(a, b)
        if bd not in m.bonds or a == b:
            return ("LOOKUP",)
        t = m.bchange.get(bd)
        return ("VAL", {r: geom.canon(d) for r, d in t.items()} if t else None)
    if q in ("atom_changes_index", "bond_changes_index"):
        if not m.has_changes:
            return ("SKIP",)
        t = m.achange.get(a) if q == "atom_changes_index" else m.bchange.get(B(a, b))
        if not t:
            return ("LOOKUP",)      # no change stored for this centre (or no such centre)
        return ("VAL", {r: geom.canon(d) for r, d in t.items()})
    if q in ("atom_stereo_index", "bond_stereo_index"):
        if not m.is_stereo:
            return ("SKIP",)
        d = m.astereo.get(a) if q == "atom_stereo_index" else m.bstereo.get(B(a, b))
        if d is None:
            return ("LOOKUP",)
        return ("VAL", geom.canon(d))
    if q in ("get_formed_bonds", "get_broken_bonds", "get_fleeting_bonds"):
        if not m.is_reaction:
            return ("SKIP",)
        role = q.split("_")[1].upper()
        return ("VAL", sorted(tuple(sorted(x)) for x in m.bonds_by_role(role)))
    if q == "active_atoms":
        if not m.is_reaction:
            return ("SKIP",)
        if op.get("layer", 0):
            return ("ANY",)
        act = set()
        for x in m.bonds_by_role("FORMED") | m.bonds_by_role("BROKEN"):
            act |= x
        for t in list(m.achange.values()) + list(m.bchange.values()):
            for d in t.values():
                act |= set(geom.desc_atoms(d))
        return ("VAL", tuple(sorted(act)))
    raise KeyError(q)


def _spoil(raw, junk):
    """F3: the consumer goes on working with the container it was handed
    (extends it in place); containers that refuse are left alone"""
    try:
        if isinstance(raw, set):
            raw.add(junk)
        elif isinstance(raw, list):
            raw.append(junk)
        elif isinstance(raw, dict):
            raw[junk] = junk
    except Exception:  # noqa: BLE001
        pass


def _ask(R, g, op):
    q = op["q"]
    a = op.get("a")
    b = op.get("b")
    if op.get("tamper") and q in ("get_formed_bonds", "get_broken_bonds", "get_fleeting_bonds", "active_atoms",
                                  "connected_components", "node_connected_component"):
        if q == "node_connected_component":
            raw = g.node_connected_component(a)
            out = tuple(sorted(raw))
            _spoil(raw, 10 ** 9 + 7)
        elif q == "connected_components":
            raw = g.connected_components()
            out = sorted(tuple(sorted(c)) for c in raw)
            for c in list(raw)[:1]:
                _spoil(c, 10 ** 9 + 7)
            _spoil(raw, {10 ** 9 + 7})
        elif q == "active_atoms":
            raw = g.active_atoms(op.get("layer", 0))
            out = tuple(sorted(x for x in raw if x is not None))
            _spoil(raw, 10 ** 9 + 7)
        else:
            raw = getattr(g, q)()
            out = sorted(tuple(sorted(x)) for x in raw)
            _spoil(raw, frozenset((10 ** 9 + 7, 10 ** 9 + 8)))
        return out
    if q == "has_atom":
        return g.has_atom(a)
    if q == "has_bond":
        return g.has_bond(a, b)
    if q == "get_atom_attribute":
        return g.get_atom_attribute(a, op["key"])
    if q == "get_atom_type":
        return g.get_atom_type(a)
    if q == "get_atom_attributes":
        keys = op.get("keys")
        return _norm_attrs(g.get_atom_attributes(a) if keys is None else g.get_atom_attributes(a, list(keys)))
    if q == "get_bond_attribute":
        return R.conv_attr_out(op["key"], g.get_bond_attribute(a, b, op["key"]))
    if q == "get_bond_attributes":
        return _norm_attrs(g.get_bond_attributes(a, b))
    if q == "bonded_to":
        return tuple(sorted(g.bonded_to(a)))
    if q == "neighbors_index":
        return tuple(sorted(g.neighbors[a]))
    if q == "node_connected_component":
        return tuple(sorted(g.node_connected_component(a)))
    if q == "connected_components":
        return sorted(tuple(sorted(c)) for c in g.connected_components())
    if q == "connectivity_matrix":
        cm = g.connectivity_matrix()
        order = list(g.atoms)
        return sorted(tuple(sorted((order[i], order[j]))) for i in range(len(order))
                      for j in range(i + 1, len(order)) if cm[i][j])
    if q == "len":
        return len(g)
    if q == "n_atoms":
        return g.n_atoms
    if q == "str":
        return str(g)
    if q == "repr":
        return repr(g)
    if q == "export":
        try:
            g.to_rdmol(generate_bond_orders=False)
        except NotImplementedError:
            # reaction classes have no public export; the internal one is
            # what reactant/product exports go through
            getattr(g, "_to_rdmol", lambda: None)()
        return None
    if q == "as_dict":
        R.EXP.JSONHandler.as_dict(g)
        return None
    if q == "hash":
        return hash(g)
    if q == "eq_self":
        return g == g
    if q == "is_stereo_valid":
        return g.is_stereo_valid()
    if q == "get_atom_stereo":
        return geom.canon(R.rd_desc(g.get_atom_stereo(a)))
    if q == "get_bond_stereo":
        return geom.canon(R.rd_desc(g.get_bond_stereo((a, b))))
    if q in ("get_atom_stereo_change", "get_bond_stereo_change"):
        t = g.get_atom_stereo_change(a) if q == "get_atom_stereo_change" else g.get_bond_stereo_change((a, b))
        if t is None:
            return None
        tt = {R.ENUM_ROLE[r]: geom.canon(R.rd_desc(s)) for r, s in t.items() if s is not None}
        return tt or None
    if q in ("atom_changes_index", "bond_changes_index"):
        t = g.atom_stereo_changes[a] if q == "atom_changes_index" else g.bond_stereo_changes[frozenset((a, b))]
        return {R.ENUM_ROLE[r]: geom.canon(R.rd_desc(x)) for r, x in t.items() if x is not None}
    if q in ("atom_stereo_index", "bond_stereo_index"):
        x = g.atom_stereo[a] if q == "atom_stereo_index" else g.bond_stereo[frozenset((a, b))]
        return geom.canon(R.rd_desc(x))
    if q in ("get_formed_bonds", "get_broken_bonds", "get_fleeting_bonds"):
        return sorted(tuple(sorted(x)) for x in getattr(g, q)())
    if q == "active_atoms":
        # placeholders inside change descriptors are not atoms (not judged)
        return tuple(sorted(a for a in g.active_atoms(op.get("layer", 0)) if a is not None))
    raise KeyError(q)


@handler("q")
def op_q(w, op):
    s = op["s"]
    sl = w.graph(s)
    if sl is None:
        w.stats["skipped"] += 1
        return
    m = sl.model
    exp = _answer(m, op)
    q = op["q"]
    if exp[0] == "SKIP":
        w.stats["skipped"] += 1
        return
    w.stats["q:" + exp[0]] += 1
    if exp[0] == "LOOKUP":
        w.stats["fault:F1:lookup-absent"] += 1
    if not w.real_enabled:
        return
    R = w.R
    st, val = _call(w, _ask, R, sl.real, op)
    cls = _cls(sl)
    if q == "hash" and not m.atoms:
        logged = "masked"        # hash(cls): process dependent by design
    elif st == "ok":
        logged = repr(val)
    else:
        logged = type(val).__name__ if st == "exc" else st
    w.log.append(("q", w.step_no, q, st, logged))
    own = {"eq_self": "C01", "hash": "C03"}.get(q, "C09")
    if st == "hang":
        w.report({own}, f"q:{q}|hang|{cls}", "", taint=[s])
        return
    if exp[0] == "VAL":
        if st == "exc":
            prop = own if own != "C09" else w.blame(sl)
            w.report({prop}, f"q:{q}|raised:{type(val).__name__}|{cls}", repr(val), taint=[s])
            return
        if val != exp[1]:
            prop = own if own != "C09" else w.blame(sl)
            w.report({prop}, f"q:{q}|wrong-answer|{cls}",
                     json.dumps({"real": repr(val), "model": repr(exp[1])}), taint=[s])
            return
    if q == "hash" and st == "ok" and w.record_hashes and m.atoms and m.sane():
        w.log.append(("hash", w.step_no, val))
    props = {"C09", "C19"} if exp[0] == "LOOKUP" else {"C09"}
    w.coherent(s, props, "q:" + q, what="lookup-absent" if exp[0] == "LOOKUP" else "after-query")
    w.check_others({s}, "q:" + q)


# ----------------------------------------------------------------------
# twins (C01, C03)

def _twin_mapping(m, rng, universe):
    atoms = m.sorted_atoms()
    mode = rng.randrange(4)
    if mode == 0:
        img = list(atoms)
        rng.shuffle(img)
        if img == atoms and len(atoms) > 1:
            img = img[1:] + img[:1]
    elif mode == 1:
        base = rng.choice((100, 1000, -50, 2 ** 40))
        stride = rng.choice((1, 1, 3, 8))
        img = [base + i * stride for i in range(len(atoms))]
        rng.shuffle(img)
    elif mode == 2:
        pool = list(range(-3, len(atoms) + 9))
        img = rng.sample(pool, len(atoms))
    else:
        img = [a * 8 + rng.randrange(8) for a in range(len(atoms))]
        rng.shuffle(img)
    return dict(zip(atoms, img))


def _eq_checks(w, g, t, cls, tag, s, also_hash):
    """g == t, t == g, is_isomorphic, hash: returns False if reported"""
    eq_ok = True
    for name, fn in (("g==t", lambda: g == t), ("t==g", lambda: t == g),
                     ("is_isomorphic", lambda: g.is_isomorphic(t))):
        st, val = _call(w, fn)
        if st == "hang":
            w.report({"C01"}, f"twin:{tag}|{name}|hang|{cls}", "")
            eq_ok = False
            break
        if st == "exc":
            w.report({"C01"}, f"twin:{tag}|{name}|raised:{type(val).__name__}|{cls}", repr(val))
            eq_ok = False
            break
        if val is not True:
            w.report({"C01"}, f"twin:{tag}|{name}|false|{cls}", "")
            eq_ok = False
            break
    w.stats["twin_eq_checked"] += 1
    # the hash is judged on its own (C03), whatever == said
    if also_hash:
        st1, h1 = _call(w, hash, g)
        st2, h2 = _call(w, hash, t)
        if "hang" in (st1, st2):
            w.report({"C03"}, f"twin:{tag}|hash|hang|{cls}", "")
            return False
        if "exc" in (st1, st2):
            e = h1 if st1 == "exc" else h2
            w.report({"C03"}, f"twin:{tag}|hash|raised:{type(e).__name__}|{cls}", repr(e))
            return False
        if w.record_hashes:
            w.log.append(("hash", w.step_no, h1))
        if h1 != h2:
            w.report({"C03"}, f"twin:{tag}|hash-differs|{cls}", f"{h1} {h2}")
            return False
        st3, h3 = _call(w, hash, g)
        if st3 != "ok" or h3 != h1:
            w.report({"C03"}, f"twin:{tag}|hash-unstable|{cls}", f"{h1} {h3}")
            return False
        if eq_ok:
            st, val = _call(w, lambda: (t in {g}) and (g in {t: 1}))
            if st != "ok" or val is not True:
                w.report({"C03"}, f"twin:{tag}|set-membership|{cls}", repr(val))
                return False
        w.stats["twin_hash_checked"] += 1
    return eq_ok


def _desc_tag(m):
    """coarse features of the graph for signatures"""
    cl = sorted({d[0] for *_x, d in m.all_descs()})
    return "+".join(cl) if cl else "nostereo"


@handler("probe_twin")
def probe_twin(w, op):
    s = op["s"]
    sl = w.graph(s)
    if sl is None:
        w.stats["skipped"] += 1
        return
    m = sl.model
    if not m.sane():
        w.stats["probe_skipped:not-sane"] += 1
        return
    if not w.real_enabled:
        return
    R = w.R
    rng = random.Random(op["seed"])
    route = op.get("route", "fresh")
    cls = _cls(sl)
    g = sl.real
    full = m.fully_specified()
    w.stats["twin:" + route] += 1
    if not m.atoms:
        w.stats["twin:empty"] += 1
    if any(not n for n in m.neighbours().values()):
        w.stats["twin:has-isolated-atom"] += 1
    if route == "self":
        st, val = _call(w, lambda: g == g)
        if st != "ok" or val is not True:
            w.report({"C01"}, f"twin:self|g==g|{st if st != 'ok' else 'false'}"
                     f"{':' + type(val).__name__ if st == 'exc' else ''}|{cls}", repr(val))
        w.coherent(s, {"C09"}, "probe_twin", what="after-query")
        return
    mp = _twin_mapping(m, rng, w.universe)
    assert len(set(mp.values())) == len(mp)
    tm = model.relabel(m, mp)
    if route == "fresh":
        try:
            t = R.guarded(R.build, tm, rng, rng)
        except R.CallTimeout:
            w.report({"C09"}, f"twin:fresh|build-hang|{cls}", "")
            return
        except Exception as e:  # noqa: BLE001
            w.report({"C09"}, f"twin:fresh|build-raised:{type(e).__name__}|{cls}", repr(e))
            return
        tag = "fresh"
    elif route == "relabel":
        st, t = _call(w, lambda: g.relabel_atoms(dict(mp), copy=True))
        if st != "ok":
            w.report({"C11"}, f"relabel|{'hang' if st == 'hang' else 'raised:' + type(t).__name__}|{cls}", repr(t))
            return
        try:
            rv, problems = R.guarded(R.snapshot, t, ())
            d = R.diff_views(rv, tm.view())
        except Exception as e:  # noqa: BLE001
            d, problems = ["unreadable:" + type(e).__name__], []
        if d or problems:
            w.report({"C11"}, f"relabel|result|{','.join(sorted(set(d) | set(problems)))}|{cls}", "")
            return
        tag = "relabel"
    else:  # detour: copy, add/remove, come back
        st, t = _call(w, lambda: g.copy())
        if st != "ok":
            w.report({"C10"}, f"copy|{st}|{cls}", repr(t))
            return
        try:
            extra = max(list(m.atoms) + [0]) + 1 + rng.randrange(3)
            t.add_atom(extra, "C")
            if m.atoms:
                a0 = rng.choice(m.sorted_atoms())
                t.add_bond(extra, a0)
                if rng.random() < 0.5:
                    t.remove_bond(a0, extra)
            t.remove_atom(extra)
        except Exception as e:  # noqa: BLE001
            w.report({"C09"}, f"twin:detour|edit-raised:{type(e).__name__}|{cls}", repr(e))
            return
        tag = "detour"
    if route in ("fresh", "detour"):
        # the twin itself must be the graph the model says it is; if building
        # or editing went wrong that is an editing defect, not an equality one
        want = tm if route == "fresh" else m
        try:
            rv, problems = R.guarded(R.snapshot, t, ())
            dd = R.diff_views(rv, want.view())
        except Exception as e:  # noqa: BLE001
            dd, problems = ["unreadable:" + type(e).__name__], []
        if dd or problems:
            w.report({"C09"}, f"twin:{route}|twin-incoherent|{','.join(sorted(set(dd) | set(problems)))}|{cls}", "")
            return
    feat = _desc_tag(m)
    if not _eq_checks(w, g, t, cls, f"{tag}:{feat}", s, also_hash=full and bool(m.atoms)):
        pass
    w.coherent(s, {"C09"}, "probe_twin", what="after-query")


# ----------------------------------------------------------------------
# pairs (C02, C01, C03, C16)

def _counting_differs(m1, m2):
    """cheap certificates of non-isomorphism valid at any size"""
    def inv(m):
        els = sorted(v["atom_type"] for v in m.atoms.values())
        roles = sorted(str(at.get("reaction")) for at in m.bonds.values()) if m.is_reaction else None
        degs = sorted(len(n) for n in m.neighbours().values())
        return (els, len(m.bonds), roles, degs, model.signature(m))
    return inv(m1) != inv(m2)


def _expected_equal(m1, m2):
    """True / False / None (oracle not applicable)"""
    if m1.kind != m2.kind:
        return False
    if not (m1.sane() and m2.sane()):
        return None
    if not (m1.fully_specified() and m2.fully_specified()):
        return None
    if _counting_differs(m1, m2):
        return False
    if model.signature(m1) != model.signature(m2):
        # the (element, neighbour elements) multisets of every side are
        # invariant under any structure-preserving bijection (any size)
        return False
    if brute.applicable(m1, m2):
        exp = brute.full_equal(m1, m2)
        if exp and m1.is_reaction and (_atom_marks(m1) or _atom_marks(m2)):
            # reaction classes also compare the atom attribute "reaction",
            # about which the properties say nothing: only twins are judged
            return None
        return exp
    return None


def _atom_marks(m):
    return [a for a, at in m.atoms.items() if "reaction" in at]


def compare_pair(w, g1, m1, g2, m2, tag, props_false="C02", props_true="C01"):
    """oracle comparison of `==` and `hash` for two real graphs with models"""
    exp = _expected_equal(m1, m2)
    cls = f"{model.CLASSNAME[m1.kind]}" + ("" if m1.kind == m2.kind else "/" + model.CLASSNAME[m2.kind])
    if exp is not None and not (m1.faithful() and m2.faithful()):
        cls += ":unfaithful-stereo"
        w.stats["pair:unfaithful-stereo"] += 1
    if exp is None:
        w.stats["pair:oracle-not-applicable"] += 1
        return True
    w.stats[f"pair:expected-{exp}"] += 1
    for name, fn in (("a==b", lambda: g1 == g2), ("b==a", lambda: g2 == g1)):
        st, val = _call(w, fn)
        if st == "hang":
            w.report({props_false if exp is False else props_true}, f"pair:{tag}|{name}|hang|{cls}", "")
            return False
        if st == "exc":
            w.report({props_false if exp is False else props_true},
                     f"pair:{tag}|{name}|raised:{type(val).__name__}|{cls}", repr(val))
            return False
        if bool(val) != exp:
            if exp is False:
                w.report({props_false}, f"pair:{tag}|{name}|equal-but-not-isomorphic|{cls}",
                         repr({"a": m1.view(), "b": m2.view()})[:2500])
            else:
                w.report({props_true}, f"pair:{tag}|{name}|isomorphic-but-unequal|{cls}",
                         repr({"a": m1.view(), "b": m2.view()})[:2500])
            break   # the hash is judged on its own below
    if m1.kind != m2.kind or not m1.atoms or not m2.atoms:
        return True
    # hashes
    st1, h1 = _call(w, hash, g1)
    st2, h2 = _call(w, hash, g2)
    if "hang" in (st1, st2):
        w.report({"C03"}, f"pair:{tag}|hash|hang|{cls}", "")
        return False
    if "exc" in (st1, st2):
        e = h1 if st1 == "exc" else h2
        w.report({"C03"}, f"pair:{tag}|hash|raised:{type(e).__name__}|{cls}", repr(e))
        return False
    if exp is True and h1 != h2:
        w.report({"C03"}, f"pair:{tag}|equal-graphs-hash-differs|{cls}", "")
        return False
    if exp is False and model.signature(m1) != model.signature(m2):
        w.stats["pair:signature-differs"] += 1
        if h1 == h2:
            w.report({"C16"}, f"pair:{tag}|signature-differs-hash-equal|{cls}",
                     repr({"a": m1.view(), "b": m2.view()})[:2500])
            return False
    return True


@handler("probe_pair")
def probe_pair(w, op):
    s1, s2 = op["s1"], op["s2"]
    a, b = w.graph(s1), w.graph(s2)
    if a is None or b is None or s1 == s2:
        w.stats["skipped"] += 1
        return
    if not w.real_enabled:
        return
    if a.model.kind != b.model.kind:
        # graphs of different classes never compare equal
        cls = _cls(a) + "/" + _cls(b)
        w.stats["pair:cross-class"] += 1
        for name, fn in (("a==b", lambda: a.real == b.real), ("b==a", lambda: b.real == a.real)):
            st, val = _call(w, fn)
            if st == "ok" and val is False:
                continue
            if st == "exc" and not (a.model.sane() and b.model.sane()):
                continue
            w.report({"C02"}, f"pair:cross-class|{name}|{'equal' if st == 'ok' else st}|{cls}", repr(val))
            return
    else:
        ok = compare_pair(w, a.real, a.model, b.real, b.model, "live")
        nv = op.get("variants", 0)
        if ok and nv:
            # the answer must not depend on identifiers / insertion order (the
            # search visits candidates in set order): same verdict expected for
            # freshly built renamings of the second graph
            exp = _expected_equal(a.model, b.model)
            if exp is not None:
                rng = random.Random(op.get("seed", 0))
                R = w.R
                cls = _cls(a)
                for _ in range(nv):
                    tm = model.relabel(b.model, _twin_mapping(b.model, rng, ()))
                    try:
                        t = R.guarded(R.build, tm, rng, None)
                    except Exception:  # noqa: BLE001
                        break
                    if not _built_ok(w, t, tm, "probe_pair"):
                        break
                    bad = False
                    for name, fn in (("a==b'", lambda: a.real == t), ("b'==a", lambda: t == a.real)):
                        st, val = _call(w, fn)
                        if st != "ok" or bool(val) != exp:
                            what = st if st != "ok" else ("equal-but-not-isomorphic" if not exp else "isomorphic-but-unequal")
                            w.report({"C02" if not exp else "C01"}, f"pair:variant|{name}|{what}|{cls}",
                                     repr({"a": a.model.view(), "b": tm.view()})[:2500])
                            bad = True
                            break
                    w.stats["pair:variants"] += 1
                    if bad:
                        break
    w.coherent(s1, {"C09"}, "probe_pair", what="after-query")
    w.coherent(s2, {"C09"}, "probe_pair", what="after-query")


def mutate_model(m: RefGraph, rng):
    """single-feature mutation; returns (mutated model, description) or None"""
    kinds = ["element", "add_bond", "remove_bond", "move_bond", "move_bond", "swap_elements", "swap_elements"]
    descs = list(m.all_descs())
    if descs:
        kinds += ["flip", "swap_ligands", "drop_desc"] * 2
    if m.is_reaction and m.bonds:
        kinds += ["role"] * 2 + ["exchange"] * 2
    if m.has_changes and descs:
        kinds += ["move_role"]
    rng.shuffle(kinds)
    for kind in kinds:
        g = m.clone()
        if kind == "element" and g.atoms:
            a = rng.choice(g.sorted_atoms())
            els = sorted({v["atom_type"] for v in g.atoms.values()} | {6, 7, 9})
            els = [e for e in els if e != g.atoms[a]["atom_type"]]
            g.atoms[a]["atom_type"] = rng.choice(els)
            return g, kind
        if kind == "swap_elements" and len(g.atoms) >= 2:
            # same element multiset, same skeleton: two atoms exchange elements
            ats = g.sorted_atoms()
            pairs = [(x, y) for i, x in enumerate(ats) for y in ats[i + 1:]
                     if g.atoms[x]["atom_type"] != g.atoms[y]["atom_type"]]
            if pairs:
                x, y = rng.choice(pairs)
                g.atoms[x]["atom_type"], g.atoms[y]["atom_type"] = g.atoms[y]["atom_type"], g.atoms[x]["atom_type"]
                return g, kind
        if kind == "move_bond" and g.bonds and len(g.atoms) >= 3:
            # same number of bonds: one bond is moved (keeps trees trees, often)
            used = set()
            for w_, key, _r, d in g.all_descs():
                if w_ in ("bstereo", "bchange"):
                    used.add(key)
            cand = [b for b in sorted(g.bonds, key=lambda b: tuple(sorted(b))) if b not in used]
            ats = g.sorted_atoms()
            free = [(x, y) for i, x in enumerate(ats) for y in ats[i + 1:] if B(x, y) not in g.bonds]
            if cand and free:
                old_b = rng.choice(cand)
                # prefer re-attaching one end of the removed bond
                near = [(x, y) for x, y in free if x in old_b or y in old_b]
                x, y = rng.choice(near or free)
                at = g.bonds.pop(old_b)
                g.bonds[B(x, y)] = at
                return g, kind
        if kind == "add_bond" and len(g.atoms) >= 2:
            ats = g.sorted_atoms()
            free = [(x, y) for i, x in enumerate(ats) for y in ats[i + 1:] if B(x, y) not in g.bonds]
            if free:
                x, y = rng.choice(free)
                g.bonds[B(x, y)] = {}
                return g, kind
        if kind == "remove_bond" and g.bonds:
            # only bonds that carry no descriptor (keeps the graph sane)
            used = set()
            for w_, key, _r, d in g.all_descs():
                if w_ in ("bstereo", "bchange"):
                    used.add(key)
            cand = [b for b in sorted(g.bonds, key=lambda b: tuple(sorted(b))) if b not in used]
            if cand:
                del g.bonds[rng.choice(cand)]
                return g, kind
        if kind in ("flip", "swap_ligands", "drop_desc") and descs:
            where, key, role, d = descs[rng.randrange(len(descs))]
            if kind == "flip":
                if d[2] not in (1, -1):
                    continue
                nd = geom.invert(d)
            elif kind == "swap_ligands":
                at = list(d[1])
                if where in ("astereo", "achange"):
                    i, j = rng.sample(range(1, len(at)), 2)
                else:
                    i, j = rng.choice(((0, 1), (4, 5)))
                at[i], at[j] = at[j], at[i]
                nd = (d[0], tuple(at), d[2])
            else:
                nd = None
            tab = getattr(g, where)
            if role is None:
                if nd is None:
                    del tab[key]
                else:
                    tab[key] = nd
            else:
                if nd is None:
                    del tab[key][role]
                    if not tab[key]:
                        del tab[key]
                else:
                    tab[key][role] = nd
            return g, kind
        if kind == "exchange":
            # degenerate exchange: A-B + A'-B' -> A-B' + A'-B.  Reactant and
            # product keep their (element, neighbour elements) multisets, only
            # the transition structure differs (C16, third family)
            el = lambda a: g.atoms[a]["atom_type"]
            plain = [b for b in sorted(g.bonds, key=lambda b: tuple(sorted(b))) if not g.bonds[b].get("reaction")]
            used = set()
            for w_, key, _r, d in g.all_descs():
                used |= set(geom.desc_atoms(d))
            cands = []
            for i, b1 in enumerate(plain):
                for b2 in plain[i + 1:]:
                    if b1 & b2:
                        continue
                    for (a, b_), (c, d_) in ((tuple(sorted(b1)), tuple(sorted(b2))), (tuple(sorted(b1)), tuple(sorted(b2))[::-1])):
                        if el(a) == el(c) and el(b_) == el(d_) and B(a, d_) not in g.bonds and B(c, b_) not in g.bonds \
                                and not ({a, b_, c, d_} & used):
                            cands.append((a, b_, c, d_))
            if cands:
                a, b_, c, d_ = cands[rng.randrange(len(cands))]
                g.bonds[B(a, b_)]["reaction"] = "BROKEN"
                g.bonds[B(c, d_)]["reaction"] = "BROKEN"
                g.bonds[B(a, d_)] = {"reaction": "FORMED"}
                g.bonds[B(c, b_)] = {"reaction": "FORMED"}
                return g, kind
        if kind == "role" and g.bonds:
            b = rng.choice(sorted(g.bonds, key=lambda b: tuple(sorted(b))))
            cur = g.bonds[b].get("reaction")
            new = rng.choice([r for r in (None,) + ROLES if r != cur])
            if new is None:
                g.bonds[b].pop("reaction", None)
            else:
                g.bonds[b]["reaction"] = new
            return g, kind
        if kind == "move_role":
            ch = [(w_, key, r, d) for w_, key, r, d in descs if r is not None]
            if ch:
                w_, key, r, d = ch[rng.randrange(len(ch))]
                tab = getattr(g, w_)
                free = [x for x in ROLES if x not in tab[key]]
                if free:
                    del tab[key][r]
                    tab[key][rng.choice(free)] = d
                    return g, kind
    return None


def _unspecified_prelude(w, g):
    """Earlier in the same process somebody handled the sketch of the same
    molecule with undetermined configuration (same descriptors, same atom
    orders, parity None): hashed it, compared it, exported it.  Whatever the
    library remembers from that must not leak into later answers.  The sketch
    is a private object; nothing here is judged."""
    R = w.R
    def run():
        u = g.copy()
        for d in list(u.atom_stereo.values()):
            u.set_atom_stereo(type(d)(d.atoms, None))
        for d in list(u.bond_stereo.values()):
            u.set_bond_stereo(type(d)(d.atoms, None))
        for fn in (lambda: hash(u), lambda: u == u, lambda: u == g,
                   lambda: u.to_rdmol(generate_bond_orders=False)):
            try:
                fn()
            except Exception:  # noqa: BLE001
                pass
    try:
        R.guarded(run)
        w.stats["prelude:unspecified-sketch"] += 1
    except BaseException as e:  # noqa: BLE001
        if isinstance(e, (KeyboardInterrupt, SystemExit)):
            raise
        w.stats["prelude:failed"] += 1


@handler("probe_mutant")
def probe_mutant(w, op):
    """a != mutate(a): both built fresh from models (C02 / C16)"""
    sl = w.graph(op["s"])
    if sl is None:
        w.stats["skipped"] += 1
        return
    m = sl.model
    if not (m.sane() and m.fully_specified()) or not m.atoms:
        w.stats["probe_skipped:not-sane"] += 1
        return
    if not w.real_enabled:
        return
    rng = random.Random(op["seed"])
    res = mutate_model(m, rng)
    if res is None:
        return
    m2, kind = res
    if not m2.sane():
        return
    R = w.R
    # the comparison partner keeps the identifiers in some cases (coincidences
    # of particular identifiers, e.g. -1 next to a placeholder, stay in play)
    mp = {a: a for a in m2.atoms} if rng.random() < 0.3 else _twin_mapping(m2, rng, w.universe)
    m2r = model.relabel(m2, mp)
    try:
        g2 = R.guarded(R.build, m2r, rng, rng)
    except Exception:  # noqa: BLE001
        return
    w.stats["mutant:" + kind] += 1
    if not _built_ok(w, g2, m2r, "probe_mutant"):
        return
    if op.get("prelude") and m.is_stereo:
        _unspecified_prelude(w, g2)
    n0 = len(w.violations) + len(w.known_hits)
    compare_pair(w, sl.real, m, g2, m2r, "mutant:" + kind)
    if op.get("grouped") and n0 == len(w.violations) + len(w.known_hits):
        # both read from files that list the atoms element by element, with
        # the identifiers kept: same identifiers, same bonds, same sequence of
        # elements in insertion order - different molecules
        try:
            f1 = R.guarded(R.build, m, "element", None, budget=30)
            f2 = R.guarded(R.build, m2, "element", None, budget=30)
        except Exception:  # noqa: BLE001
            return
        if _built_ok(w, f1, m, "probe_mutant") and _built_ok(w, f2, m2, "probe_mutant"):
            w.stats["mutant:grouped-by-element"] += 1
            compare_pair(w, f1, m, f2, m2, "mutant-grouped:" + kind)
    w.coherent(op["s"], {"C09"}, "probe_mutant", what="after-query")


# ----------------------------------------------------------------------
# enantiomer equality (C06)

@handler("probe_enant")
def probe_enant(w, op):
    sl = w.graph(op["s"])
    if sl is None or not sl.model.is_stereo:
        w.stats["skipped"] += 1
        return
    m = sl.model
    if not (m.sane() and m.fully_specified()) or not m.atoms or len(m.atoms) > brute.MAX_ATOMS:
        w.stats["probe_skipped:oracle-not-applicable"] += 1
        return
    if not w.real_enabled:
        return
    cls = _cls(sl)
    cls_eq = cls + ("" if m.faithful() else ":unfaithful-stereo")
    st, e = _call(w, lambda: sl.real.enantiomer())
    if st != "ok":
        w.report({"C06"}, f"enantiomer|{st}{':' + type(e).__name__ if st == 'exc' else ''}|{cls}", repr(e))
        return
    em = model.enantiomer(m)
    try:
        rv, problems = w.R.guarded(w.R.snapshot, e, ())
        d = w.R.diff_views(rv, em.view())
    except Exception as ex:  # noqa: BLE001
        d, problems = ["unreadable:" + type(ex).__name__], []
    if d or problems:
        w.report({"C06"}, f"enantiomer|result|{','.join(sorted(set(d) | set(problems)))}|{cls}", "")
        return
    if em.buildable():
        # the returned graph and the mirror image built independently are
        # one and the same labelled graph
        try:
            f = w.R.guarded(w.R.build, em, None, None)
        except Exception:  # noqa: BLE001
            f = None
        if f is not None and _built_ok(w, f, em, "probe_enant"):
            for name, fn in (("e==mirror-built-afresh", lambda: e == f), ("mirror-built-afresh==e", lambda: f == e)):
                st, val = _call(w, fn)
                if st != "ok" or val is not True:
                    w.report({"C06"}, f"enantiomer|{name}|{st if st != 'ok' else 'false'}|{cls_eq}", repr(val))
                    return
            w.stats["enant:equals-fresh-mirror"] += 1
    exp = brute.full_equal(m, em)
    if exp is None:
        w.stats["probe_skipped:oracle-budget"] += 1
        return
    w.stats[f"enant:expected-{exp}"] += 1
    # asked twice, the second time on a freshly derived enantiomer: the answer
    # must not depend on what has been compared before
    st, e2 = _call(w, lambda: sl.real.enantiomer())
    checks = [("g==e", lambda: sl.real == e), ("e==g", lambda: e == sl.real)]
    if st == "ok":
        checks += [("g==e'", lambda: sl.real == e2), ("e'==g", lambda: e2 == sl.real), ("e==e'", lambda: (e == e2) == True or "ne")]
    for name, fn in checks:
        if name == "e==e'":
            st, val = _call(w, lambda: e == e2)
            if st != "ok" or val is not True:
                w.report({"C06", "C01"}, f"enantiomer|two-enantiomers-of-one-graph-unequal|{cls}", repr(val))
                return
            continue
        st, val = _call(w, fn)
        if st != "ok":
            w.report({"C06"}, f"enantiomer|{name}|{st}{':' + type(val).__name__ if st == 'exc' else ''}|{cls}", repr(val))
            return
        if bool(val) != exp:
            w.report({"C06"}, f"enantiomer|{name}|{'chiral-but-equal' if not exp else 'achiral-but-unequal'}|{cls_eq}",
                     repr(m.view())[:1500])
            return
    # twice
    st, ee = _call(w, lambda: e.enantiomer())
    if st == "ok":
        try:
            rv, problems = w.R.guarded(w.R.snapshot, ee, ())
            d = w.R.diff_views(rv, m.view())
        except Exception as ex:  # noqa: BLE001
            d, problems = ["unreadable:" + type(ex).__name__], []
        if d or problems:
            w.report({"C06"}, f"enantiomer|twice|{','.join(sorted(set(d) | set(problems)))}|{cls}", "")
            return
    else:
        w.report({"C06"}, f"enantiomer|twice|{st}|{cls}", repr(ee))
        return
    w.coherent(op["s"], {"C06", "C09"}, "probe_enant", what="source")


# ----------------------------------------------------------------------
# JSON round trip equality (C15)

def check_roundtrip_equal(w, dst, full: RefGraph):
    sl = w.slots[dst]
    R = w.R
    cls = _cls(sl)
    if full.is_reaction and _atom_marks(full):
        # attributes are not part of the text; the atom attribute "reaction"
        # (which reaction classes compare in ==) is left out of the reference
        full = full.clone()
        for a in _atom_marks(full):
            del full.atoms[a]["reaction"]
    try:
        orig = R.guarded(R.build, full)
    except Exception:  # noqa: BLE001
        return
    if not _built_ok(w, orig, full, "deserialize"):
        return
    for name, fn in (("restored==original", lambda: sl.real == orig),
                     ("original==restored", lambda: orig == sl.real)):
        st, val = _call(w, fn)
        if st != "ok" or val is not True:
            w.report({"C15"}, f"deserialize|{name}|{st if st != 'ok' else 'false'}"
                     f"{':' + type(val).__name__ if st == 'exc' else ''}|{cls}", repr(val))
            return
    if full.atoms and full.fully_specified():
        st1, h1 = _call(w, hash, sl.real)
        st2, h2 = _call(w, hash, orig)
        if st1 != "ok" or st2 != "ok" or h1 != h2:
            w.report({"C15"}, f"deserialize|hash-differs|{cls}", f"{st1} {st2}")
            return
    w.stats["roundtrip_equal_checked"] += 1


# ----------------------------------------------------------------------
# from_graphs observables (C08)

def check_from_graphs(w, sl, inputs, op):
    """C08: reactant()/product() return the original atoms, bonds and (fully
    specified) descriptors; formed/broken/fleeting are P-R, R-P, TS-(R u P).
    If the stored representation differs from the case-analysis model but the
    observables hold, the real representation is adopted."""
    R = w.R
    Rm, Pm = inputs[0], inputs[1]
    TSm = inputs[2] if len(inputs) > 2 else None
    g = sl.real
    cls = type(g).__name__
    rb, pb = set(Rm.bonds), set(Pm.bonds)
    tsb = set(TSm.bonds) if TSm is not None else set()

    def fail(what, detail=""):
        w.report({"C08"}, f"from_graphs|{what}|{cls}", detail)
        sl.tainted = True

    # The stored representation (static descriptor vs. change) is
    # implementation defined: if it differs from the case-analysis model it is
    # adopted - read back *before* any observable is asked for, so that a
    # reactant()/product() call that damages the reaction graph is still seen
    # by the coherence check that follows this function.
    adopted = None
    try:
        rv0, problems0 = R.guarded(R.snapshot, g, w.universe)
        if R.diff_views(rv0, sl.model.view()) and not problems0:
            adopted = R.adopt(g)
    except Exception:  # noqa: BLE001
        pass

    try:
        formed = {frozenset(b) for b in g.get_formed_bonds()}
        broken = {frozenset(b) for b in g.get_broken_bonds()}
        fleeting = {frozenset(b) for b in g.get_fleeting_bonds()}
    except Exception as e:  # noqa: BLE001
        return fail("role-sets-raised:" + type(e).__name__, repr(e))
    if formed != pb - rb:
        return fail("formed!=P-R")
    if broken != rb - pb:
        return fail("broken!=R-P")
    if fleeting != tsb - (rb | pb):
        return fail("fleeting!=TS-(RuP)")
    for which, fn, src in (("reactant", g.reactant, Rm), ("product", g.product, Pm)):
        st, side = _call(w, fn)
        if st != "ok":
            return fail(f"{which}()-{st}{':' + type(side).__name__ if st == 'exc' else ''}", repr(side))
        try:
            rv, problems = R.guarded(R.snapshot, side, ())
        except Exception as e:  # noqa: BLE001
            return fail(f"{which}()-unreadable:{type(e).__name__}")
        side_kind = "SMG" if sl.model.kind == "SCRG" else "MG"
        exp = RefGraph(side_kind)
        exp.atoms = {a: {"atom_type": v["atom_type"]} for a, v in src.atoms.items()}
        exp.bonds = {b: {} for b in src.bonds}
        full = all(d[2] is not None for *_x, d in src.all_descs())
        ev = exp.view()
        fields = ["class", "atoms", "bonds", "neighbors", "components"]
        bad = [f for f in fields if rv.get(f) != ev.get(f)]
        if side_kind == "SMG":
            # descriptors, centre by centre.  Not judged: centres whose own
            # descriptor has parity None (statement: "for fully specified
            # parities"), and centres where R and P agree while the transition
            # state carries a parity-None descriptor (the None rule makes all
            # three "equal"; which of them is stored is not specified).
            other = Pm if src is Rm else Rm
            for fld, tab, otab, ttab, key in (
                    ("astereo", src.astereo, other.astereo, TSm.astereo if TSm is not None else {}, lambda k: k),
                    ("bstereo", src.bstereo, other.bstereo, TSm.bstereo if TSm is not None else {}, lambda k: tuple(sorted(k)))):
                got = rv.get(fld, {})
                for c in set(tab) | {k2 for k2 in (frozenset(x) if fld == "bstereo" else x for x in got)}:
                    if fld == "bstereo" and c in tab and c not in src.bonds:
                        continue      # orphan descriptor of a removed bond: not part of that structure
                    d = tab.get(c)
                    g_ = got.get(key(c))
                    if d is not None and d[2] is None:
                        continue
                    t_ = ttab.get(c)
                    o_ = otab.get(c)
                    if t_ is not None and t_[2] is None and d is not None and o_ is not None and geom.same(d, o_):
                        continue
                    if (d is not None and d[2] is None) or (o_ is not None and o_[2] is None):
                        continue
                    if geom.canon(d) != g_:
                        bad.append(fld)
                        break
        # element check
        for a, at in rv["atom_attrs"].items():
            if dict(at).get("atom_type") != src.atoms.get(a, {}).get("atom_type"):
                bad.append("atom_type")
                break
        if bad or problems:
            return fail(f"{which}()-differs:{','.join(sorted(set(bad) | set(problems)))}",
                        json.dumps({f: {"real": repr(rv.get(f))[:300], "want": repr(ev.get(f))[:300]} for f in bad[:3]}))
    w.stats["from_graphs_observables_ok"] += 1
    if adopted is not None:
        sl.model = adopted
        w.stats["from_graphs_adopted"] += 1


# ----------------------------------------------------------------------
# isomorphism enumeration (C05)

def _labels_for(m, mode, rng_seed):
    if mode == "coarse":
        # caller supplied labelling: element classes merged pairwise
        return {a: m.atoms[a]["atom_type"] % 2 for a in m.atoms}
    if mode == "degree":
        n = m.neighbours()
        return {a: m.atoms[a]["atom_type"] * 10 + len(n[a]) for a in m.atoms}
    if isinstance(mode, str) and mode.startswith("marked:"):
        # "which mappings take the marked atom of the first graph onto the
        # marked atom of the second": the two labellings differ even when the
        # two graphs are one and the same object
        i = int(mode.split(":")[1 + rng_seed])
        atoms = m.sorted_atoms()
        lab = {a: m.atoms[a]["atom_type"] for a in atoms}
        lab[atoms[i % len(atoms)]] += 1000
        return lab
    return None


@handler("enum_open")
def enum_open(w, op):
    dst = op["dst"]
    a, b = w.graph(op["g1"]), w.graph(op["g2"])
    if a is None or b is None or dst in w.slots or len(w.slots) >= w.max_slots:
        w.stats["skipped"] += 1
        return
    stereo = bool(op.get("stereo"))
    changes = bool(op.get("changes"))
    m1, m2 = a.model, b.model
    if stereo and not (m1.is_stereo and m2.is_stereo):
        return
    if changes and not (stereo and m1.has_changes and m2.has_changes):
        return
    if not m1.atoms or not m2.atoms:
        return
    big = False
    if not brute.applicable(m1, m2, stereo, changes):
        # above the exhaustive bound: validity, uniqueness and group closure of
        # a bounded prefix are still decidable (needs sane, specified graphs)
        ok = all((not (stereo or changes)) or (m.sane() and all(d[2] is not None for _t, d in brute._desc_sets(m, stereo, changes)))
                 for m in (m1, m2))
        if not ok or max(len(m1.atoms), len(m2.atoms)) > 24:
            w.stats["probe_skipped:oracle-not-applicable"] += 1
            return
        big = True
    lab = op.get("labels")
    l1, l2 = _labels_for(m1, lab, 0), _labels_for(m2, lab, 1)
    gs = Slot("gen")
    gs.data.update(inputs=[op["g1"], op["g2"]], yielded=[], kind="enum", stereo=stereo,
                   changes=changes, labels=lab, done=False, m1=m1.clone(), m2=m2.clone())
    orc = None if big else _enum_oracle(gs)
    if not big and (orc is None or len(orc) > 1500):
        # astronomically symmetric (e.g. ten unbonded atoms of one element):
        # the exhaustive oracle abstains; fall back to prefix checking
        big = True
        orc = None
    gs.data["big"] = big
    gs.data["oracle"] = orc
    gs.data["n_oracle"] = len(orc) if orc is not None else 40
    if big:
        w.stats["enum_opened_above_exhaustive_bound"] += 1
    a.locks += 1
    b.locks += 1
    if w.real_enabled:
        R = w.R
        kw = dict(stereo=stereo, stereo_change=changes)
        if l1 is not None:
            # the caller's dictionaries in an order of their own (sorted by
            # identifier / reversed), not in the graphs' insertion order
            o1 = sorted(l1, reverse=bool(op.get("stereo")))
            o2 = sorted(l2, reverse=not bool(op.get("changes")))
            kw["atom_labels"] = ({a: l1[a] for a in o1}, {a: l2[a] for a in o2})
        gs.data["label_dicts"] = kw.get("atom_labels")
        gs.real = R.vf2pp_all_isomorphisms(a.real, b.real, **kw)
        gs.data["cls"] = _cls(a) + "/" + _cls(b)
    w.slots[dst] = gs
    w.stats["enum_opened"] += 1


def _enum_oracle(gs):
    d = gs.data
    if "oracle" in d and (d["oracle"] is not None or d.get("big")):
        return d["oracle"]
    m1, m2 = d["m1"], d["m2"]
    lab = d["labels"]
    labels = None
    if lab is not None:
        labels = (_labels_for(m1, lab, 0), _labels_for(m2, lab, 1))
    return brute.all_isomorphisms(m1, m2, labels=labels, stereo=d["stereo"], changes=d["changes"])


def _fz(mapping):
    return tuple(sorted(mapping.items()))


def _same_labelling(d):
    """the mappings of a graph onto itself form a group only if both sides
    carry the same labelling (a marked atom sent onto another one gives a
    coset)"""
    lab = d["labels"]
    if lab is None:
        return True
    return _labels_for(d["m1"], lab, 0) == _labels_for(d["m2"], lab, 1)


def _enum_tag(d):
    return f"stereo={int(d['stereo'])},changes={int(d['changes'])},labels={d['labels']}"


def _enum_check_big(w, gs, final):
    """validity / uniqueness / closure where the exhaustive oracle abstains"""
    d = gs.data
    cls = d.get("cls", "")
    tag = _enum_tag(d) + ",prefix-only"
    m1, m2 = d["m1"], d["m2"]
    labels = None
    if d["labels"] is not None:
        labels = (_labels_for(m1, d["labels"], 0), _labels_for(m2, d["labels"], 1))
    got = [_fz(x) for x in d["yielded"]]
    if len(set(got)) != len(got):
        w.report({"C05"}, f"enum|duplicate-mapping|{tag}|{cls}", "")
        return False
    for x in d["yielded"]:
        if not brute.valid_mapping(m1, m2, x, labels=labels, stereo=d["stereo"], changes=d["changes"]):
            w.report({"C05"}, f"enum|invalid-mapping|{tag}|{cls}",
                     repr({"mapping": _fz(x), "g1": m1.view(), "g2": m2.view()})[:2500])
            return False
    if final and got and (d["inputs"][0] == d["inputs"][1]) and _same_labelling(d):
        S = set(got)
        ident = _fz({a: a for a in m1.atoms})
        if ident not in S:
            w.report({"C05"}, f"enum|identity-missing|{tag}|{cls}", "")
            return False
        for x in d["yielded"][:10]:
            if _fz({v: k for k, v in x.items()}) not in S:
                w.report({"C05"}, f"enum|not-a-group|{tag}|{cls}", "")
                return False
            for y in d["yielded"][:10]:
                if _fz({k: y[v] for k, v in x.items()}) not in S:
                    w.report({"C05"}, f"enum|not-a-group|{tag}|{cls}", "")
                    return False
    w.stats["enum_prefix_checked_above_bound"] += 1
    return True


def _enum_check_prefix(w, gs, final):
    d = gs.data
    if d.get("big"):
        return _enum_check_big(w, gs, final)
    orc = _enum_oracle(gs)
    if orc is None:
        w.stats["probe_skipped:oracle-budget"] += 1
        return True
    oracle = {_fz(x) for x in orc}
    got = [_fz(x) for x in d["yielded"]]
    cls = d.get("cls", "")
    tag = _enum_tag(d)
    if len(set(got)) != len(got):
        w.report({"C05"}, f"enum|duplicate-mapping|{tag}|{cls}", "")
        return False
    bad = [x for x in got if x not in oracle]
    if bad:
        w.report({"C05"}, f"enum|invalid-mapping|{tag}|{cls}",
                 repr({"mapping": bad[0], "g1": d["m1"].view(), "g2": d["m2"].view()})[:2500])
        return False
    if final and set(got) != oracle:
        missing = sorted(oracle - set(got))
        w.report({"C05"}, f"enum|missing-mapping|{tag}|{cls}",
                 repr({"missing": missing[0], "n_missing": len(missing), "n_oracle": len(oracle),
                       "g1": d["m1"].view(), "g2": d["m2"].view()})[:2500])
        return False
    if final:
        w.stats["enum_exhausted_checked"] += 1
        w.stats[f"enum_size:{min(len(oracle), 48) if len(oracle) < 48 else '48+'}"] += 1
        if len(oracle) >= 8:
            w.stats["enum_ge8_automorphisms"] += 1
    return True


@handler("gen_next")
def gen_next(w, op):
    gs = w.slots.get(op["g"])
    if gs is None or gs.kind != "gen" or gs.data.get("done"):
        w.stats["skipped"] += 1
        return
    if not w.real_enabled:
        return
    n = op.get("n", 1)
    for _ in range(n):
        st, val = _call(w, next, gs.real)
        if st == "hang":
            w.report({gs.data.get("prop", "C05")}, f"{gs.data['kind']}|next-hang|{gs.data.get('cls', '')}", "")
            _finish(w, gs)
            return
        if st == "exc":
            if isinstance(val, StopIteration):
                gs.data["done"] = True
                _on_exhausted(w, gs)
                _finish(w, gs)
                return
            w.report({gs.data.get("prop", "C05")},
                     f"{gs.data['kind']}|next-raised:{type(val).__name__}|{gs.data.get('cls', '')}", repr(val))
            _finish(w, gs)
            return
        w.stats["gen_yield"] += 1
        if gs.data["kind"] == "enum":
            w.log.append(("yield", w.step_no, tuple(sorted(val.items()))))
            gs.data["yielded"].append(dict(val))
            tamper = op.get("tamper")
            if tamper == "clear":
                w.stats["fault:F3:clear-yielded"] += 1
                val.clear()
            elif tamper == "mutate":
                w.stats["fault:F3:mutate-yielded"] += 1
                for k in list(val):
                    val[k] = -999
                val[-998] = 0
        else:
            _on_isomer(w, gs, val, op)
        if gs.data.get("big") and len(gs.data["yielded"]) >= 400:
            # bounded prefix of a possibly astronomically large enumeration
            try:
                gs.real.close()
            except Exception:  # noqa: BLE001
                pass
            _enum_check_prefix(w, gs, final=False)
            _finish(w, gs)
            return
        if len(gs.data["yielded"]) > 6000:
            w.report({"C05"}, f"enum|runaway|{gs.data.get('cls', '')}", "")
            _finish(w, gs)
            return


@handler("gen_drain")
def gen_drain(w, op):
    gs = w.slots.get(op["g"])
    if gs is None or gs.kind != "gen" or gs.data.get("done"):
        w.stats["skipped"] += 1
        return
    if not w.real_enabled:
        return
    for _ in range(7000):
        if gs.data.get("done") or op["g"] not in w.slots or w.violations:
            return
        gen_next(w, {"k": "gen_next", "g": op["g"], "n": 1, "tamper": op.get("tamper")})


@handler("gen_close")
def gen_close(w, op):
    gs = w.slots.get(op["g"])
    if gs is None or gs.kind != "gen":
        w.stats["skipped"] += 1
        return
    how = op.get("how", "close")
    if w.real_enabled and not gs.data.get("done"):
        w.stats["fault:F2:" + how] += 1
        try:
            if how == "close":
                gs.real.close()
            elif how == "throw":
                try:
                    gs.real.throw(RuntimeError("cancelled by consumer"))
                except (RuntimeError, StopIteration):
                    pass
            # 'drop': just forget it
        except Exception as e:  # noqa: BLE001
            w.report({gs.data.get("prop", "C05")}, f"{gs.data['kind']}|cancel-raised:{type(e).__name__}", repr(e))
        if gs.data["kind"] == "enum":
            _enum_check_prefix(w, gs, final=False)
            w.stats["enum_cancelled_checked"] += 1
        if how == "labels" and gs.data.get("label_dicts"):
            # the consumer edits its own label dictionary while the enumeration
            # is suspended and advances it once more: whatever that enumeration
            # does now is its own business (nothing is judged), but it must not
            # leave anything behind for the enumerations that follow
            w.stats["fault:F3:edit-label-dict"] += 1
            l1, l2 = gs.data["label_dicts"]
            tgt = l2 if len(gs.data["yielded"]) % 2 else l1
            if tgt:
                del tgt[sorted(tgt, key=repr)[len(gs.data["yielded"]) % len(tgt)]]
            try:
                w.R.guarded(next, gs.real)
            except BaseException as e:  # noqa: BLE001
                if isinstance(e, (KeyboardInterrupt, SystemExit)):
                    raise
    _finish(w, gs)
    w.slots.pop(op["g"], None)


def _finish(w, gs):
    ins = list(gs.data.get("inputs", ()))
    w._release(gs)
    gs.data["done"] = True
    if w.real_enabled:
        for s in ins:
            w.coherent(s, {"C09"}, gs.data["kind"], what="input-after-enumeration")


def _on_exhausted(w, gs):
    if gs.data["kind"] == "enum":
        if _enum_check_prefix(w, gs, final=True) and not gs.data.get("big"):
            d = gs.data
            # group closure for a graph against itself
            if (d["inputs"][0] == d["inputs"][1] or d["m1"].digest_tuple() == d["m2"].digest_tuple()) and _same_labelling(d):
                maps = [dict(x) for x in d["yielded"]]
                S = {_fz(x) for x in maps}
                ok = True
                for x in maps[:12]:
                    inv = {v: k for k, v in x.items()}
                    if _fz(inv) not in S:
                        ok = False
                    for y in maps[:12]:
                        if set(x.values()) == set(y.keys()):
                            comp = {k: y[v] for k, v in x.items()}
                            if _fz(comp) not in S:
                                ok = False
                if not ok:
                    w.report({"C05"}, f"enum|not-a-group|{_enum_tag(d)}|{d.get('cls', '')}", "")
    else:
        _isomers_done(w, gs)


@handler("symnum")
def symnum(w, op):
    sl = w.graph(op["s"])
    if sl is None or sl.model.kind != "SMG":
        w.stats["skipped"] += 1
        return
    m = sl.model
    if not m.atoms or not brute.applicable(m, m, True, False):
        w.stats["probe_skipped:oracle-not-applicable"] += 1
        return
    if not w.real_enabled:
        return
    autos = brute.all_isomorphisms(m, m, stereo=True)
    if autos is None:
        w.stats["probe_skipped:oracle-budget"] += 1
        return
    exp = len(autos)
    st, val = _call(w, w.R.EXP.topological_symmetry_number, sl.real)
    cls = _cls(sl)
    if st != "ok":
        w.report({"C05"}, f"symnum|{st}{':' + type(val).__name__ if st == 'exc' else ''}|{cls}", repr(val))
    elif val != exp:
        w.report({"C05"}, f"symnum|wrong-count|{cls}", repr({"real": val, "oracle": exp, "g": m.view()})[:1500])
    else:
        w.stats["symnum_checked"] += 1
    w.coherent(op["s"], {"C09"}, "symnum", what="after-query")


# ----------------------------------------------------------------------
# single stereogenic unit (C16): flip and lazy stereoisomer generation

def _stated_units(m: RefGraph):
    """descriptors of the two families C16 names, stereo-valid, no placeholders"""
    out = []
    el = lambda a: m.atoms[a]["atom_type"]
    for a, d in m.astereo.items():
        if d[0] == "Tetrahedral" and None not in d[1]:
            lig = d[1][1:]
            if len({el(x) for x in lig}) == 4 and all(B(a, x) in m.bonds for x in lig) \
                    and len(m.nbrs(a)) == 4:
                out.append(("astereo", a))
    for b, d in m.bstereo.items():
        if d[0] == "PlanarBond" and None not in d[1]:
            at = d[1]
            if el(at[0]) != el(at[1]) and el(at[4]) != el(at[5]) and B(at[2], at[3]) in m.bonds \
                    and all(B(x, c) in m.bonds for x, c in ((at[0], at[2]), (at[1], at[2]), (at[4], at[3]), (at[5], at[3]))) \
                    and len(m.nbrs(at[2])) == 3 and len(m.nbrs(at[3])) == 3:
                out.append(("bstereo", b))
    return out


def _other_isomer(d):
    """the other stereoisomer at one unit"""
    if d[0] == "Tetrahedral":
        return (d[0], d[1], -d[2] if d[2] in (1, -1) else 1)
    at = d[1]
    return (d[0], (at[0], at[1], at[2], at[3], at[5], at[4]), 0)


def single_unit(m: RefGraph):
    """(where, key) if the molecule has exactly one stereogenic unit and it is
    of a stated kind: it is the only descriptor, or every other descriptor is
    non-stereogenic by the exact oracle"""
    if m.kind != "SMG" or not m.sane() or not m.atoms:
        return None
    units = _stated_units(m)
    if len(units) != 1:
        return None
    where, key = units[0]
    others = [(w_, k) for w_, k, _r, _d in m.all_descs() if (w_, k) != (where, key)]
    if others:
        if len(m.atoms) > brute.MAX_ATOMS:
            return None
        for w_, k in others:
            d = getattr(m, w_)[k]
            if d[2] is None:
                return None
            g = m.clone()
            if d[0] in ("Tetrahedral", "PlanarBond"):
                getattr(g, w_)[k] = _other_isomer(d)
            else:
                getattr(g, w_)[k] = geom.invert(d)
            if brute.full_equal(m, g) is not True:
                return None
    return where, key


@handler("probe_flip")
def probe_flip(w, op):
    sl = w.graph(op["s"])
    if sl is None:
        w.stats["skipped"] += 1
        return
    m = sl.model
    u = single_unit(m)
    if u is None or getattr(m, u[0])[u[1]][2] is None:
        w.stats["probe_skipped:no-single-unit"] += 1
        return
    if not w.real_enabled:
        return
    where, key = u
    m2 = m.clone()
    getattr(m2, where)[key] = _other_isomer(getattr(m, where)[key])
    R = w.R
    rng = random.Random(op["seed"])
    try:
        g2 = R.guarded(R.build, model.relabel(m2, _twin_mapping(m2, rng, ())), rng, rng)
    except Exception:  # noqa: BLE001
        return
    cls = _cls(sl)
    st1, h1 = _call(w, hash, sl.real)
    st2, h2 = _call(w, hash, g2)
    w.stats["flip:" + where] += 1
    if (st1, st2) == ("ok", "ok") and h1 == h2:
        # verify the partner before blaming the hash
        try:
            rv, problems = R.guarded(R.snapshot, g2, ())
            if problems:
                w.report({"C09"}, f"probe_flip|built-graph-incoherent|{','.join(problems)}|{cls}", "")
                return
        except Exception:  # noqa: BLE001
            return
    if st1 != "ok" or st2 != "ok":
        w.report({"C16"}, f"flip|hash-{st1}/{st2}|{cls}", "")
    elif h1 == h2:
        w.report({"C16"}, f"flip|{getattr(m, where)[key][0]}|stereoisomers-hash-equal|{cls}",
                 repr(m.view())[:1500])
    w.coherent(op["s"], {"C09"}, "probe_flip", what="after-query")


@handler("isomers_open")
def isomers_open(w, op):
    """generate_stereoisomers (default arguments) on a graph whose single
    stereogenic unit has unspecified parity"""
    dst = op["dst"]
    sl = w.graph(op["src"])
    if sl is None or dst in w.slots or len(w.slots) >= w.max_slots:
        w.stats["skipped"] += 1
        return
    m = sl.model
    u = single_unit(m)
    if u is None:
        w.stats["probe_skipped:no-single-unit"] += 1
        return
    where, key = u
    d = getattr(m, where)[key]
    if d[2] is not None:
        w.stats["probe_skipped:unit-specified"] += 1
        return
    if any(x[2] is None for w_, k, _r, x in m.all_descs() if (w_, k) != (where, key)):
        return
    iso = []
    for nd in ((d[0], d[1], 1), (d[0], d[1], -1)) if d[0] == "Tetrahedral" else \
            ((d[0], d[1], 0), _other_isomer((d[0], d[1], 0))):
        g = m.clone()
        getattr(g, where)[key] = nd
        iso.append(g)
    gs = Slot("gen")
    gs.data.update(inputs=[op["src"]], yielded=[], kind="isomers", prop="C16", done=False,
                   expected=iso, src_model=m.clone(), cls=_cls(sl), unit=d[0])
    sl.locks += 1
    if w.real_enabled:
        gs.real = w.R.EXP.generate_stereoisomers(sl.real)
    w.slots[dst] = gs
    w.stats["isomers_opened"] += 1


def _on_isomer(w, gs, g, op):
    R = w.R
    try:
        rv, problems = R.guarded(R.snapshot, g, ())
    except Exception as e:  # noqa: BLE001
        w.report({"C16"}, f"isomers|yielded-unreadable:{type(e).__name__}|{gs.data['cls']}", "")
        return
    st, h = _call(w, hash, g)
    gs.data["yielded"].append((rv, h if st == "ok" else None))
    tamper = op.get("tamper")
    if tamper:
        # F3: the consumer edits the yielded graph; must not disturb the rest
        w.stats["fault:F3:edit-yielded-isomer"] += 1
        try:
            for a in list(g.atoms)[:1]:
                g.set_atom_attribute(a, "atom_type", "F")
            for a in list(g.atom_stereo):
                g.delete_atom_stereo(a)
        except Exception:  # noqa: BLE001
            pass


def _isomers_done(w, gs):
    d = gs.data
    exp_views = [m.view() for m in d["expected"]]
    got = d["yielded"]
    cls = d["cls"]
    # C16 speaks about the hash: the generator (which de-duplicates by hash) is
    # only evidence.  An anomaly is reported under C16 iff the two isomers,
    # built independently, really share a hash; a generator that misbehaves for
    # another reason is counted, not reported (no listed property covers it).
    R = w.R
    hs = []
    for m in d["expected"]:
        try:
            g = R.guarded(R.build, m)
            hs.append(R.guarded(hash, g))
        except Exception:  # noqa: BLE001
            hs.append(None)
    collide = hs[0] is not None and hs[0] == hs[1]
    if len(got) != 2:
        if collide:
            w.report({"C16"}, f"isomers|{d['unit']}|yielded-{len(got)}-instead-of-2|{cls}",
                     repr(d["src_model"].view())[:1500])
        else:
            w.stats["isomers_generator_anomaly_not_due_to_hash"] += 1
        return
    if got[0][1] is None or got[0][1] == got[1][1]:
        if collide:
            w.report({"C16"}, f"isomers|{d['unit']}|hashes-equal|{cls}", "")
        else:
            w.stats["isomers_generator_anomaly_not_due_to_hash"] += 1
        return
    R = w.R
    left = list(exp_views)
    for rv, _h in got:
        hit = [ev for ev in left if not R.diff_views(rv, ev)]
        if not hit:
            w.stats["isomers_generator_anomaly_not_due_to_hash"] += 1
            return
        left.remove(hit[0])
    w.stats["isomers_checked"] += 1
