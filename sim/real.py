"""Adapter to the real library: import, build, apply, snapshot.

Everything goes through the public API.  Indexed / computing reads are issued
against a ``copy.deepcopy`` of the object (observer rule, DESIGN 3.7).
"""
from __future__ import annotations

import copy
import json
import os
import signal
import sys

from . import geom
from .model import CLASSNAME, KIND_OF, ROLES, RefGraph

REPO = os.environ.get("VERIF_REPO", "/repo")
_src = os.path.join(REPO, "src")
if sys.path[0] != _src:
    sys.path.insert(0, _src)

import warnings  # noqa: E402

warnings.filterwarnings("ignore")
try:
    from rdkit import RDLogger  # noqa: E402
    RDLogger.DisableLog("rdApp.*")
except Exception:  # noqa: BLE001
    pass

import stereomolgraph  # noqa: E402

assert os.path.realpath(stereomolgraph.__file__).startswith(os.path.realpath(_src)), (
    stereomolgraph.__file__, _src)

from stereomolgraph.graphs.mg import MolGraph  # noqa: E402
from stereomolgraph.graphs.smg import StereoMolGraph  # noqa: E402
from stereomolgraph.graphs.crg import Change, CondensedReactionGraph  # noqa: E402
from stereomolgraph.graphs.scrg import StereoCondensedReactionGraph  # noqa: E402
from stereomolgraph import stereodescriptors as SD  # noqa: E402
from stereomolgraph.algorithms.isomorphism import vf2pp_all_isomorphisms  # noqa: E402
from stereomolgraph import experimental as EXP  # noqa: E402

CLS = {"MG": MolGraph, "SMG": StereoMolGraph, "CRG": CondensedReactionGraph,
       "SCRG": StereoCondensedReactionGraph}
DESC_CLS = {n: getattr(SD, n) for n in geom.CLASSES}
ROLE_ENUM = {"FORMED": Change.FORMED, "BROKEN": Change.BROKEN, "FLEETING": Change.FLEETING}
ENUM_ROLE = {v: k for k, v in ROLE_ENUM.items()}


class CallTimeout(BaseException):
    pass


def _on_alarm(signum, frame):
    raise CallTimeout()


signal.signal(signal.SIGALRM, _on_alarm)
signal.signal(signal.SIGVTALRM, _on_alarm)
CALL_BUDGET = float(os.environ.get("VERIF_CALL_BUDGET", "5"))
CONFIRM_BUDGET = float(os.environ.get("VERIF_CONFIRM_BUDGET", "40"))


def guarded(fn, *a, budget=None, **kw):
    """run one library call under the hang watchdog.  The budget is CPU time
    of this process (so that a loaded machine does not turn slow calls into
    hangs); a wall-clock backstop of five times the budget stands behind it."""
    b = budget or CALL_BUDGET
    signal.setitimer(signal.ITIMER_VIRTUAL, b)
    signal.setitimer(signal.ITIMER_REAL, 5 * b)
    try:
        return fn(*a, **kw)
    finally:
        signal.setitimer(signal.ITIMER_VIRTUAL, 0)
        signal.setitimer(signal.ITIMER_REAL, 0)


# ----------------------------------------------------------------------
def mk_desc(d):
    if d is None:
        return None
    return DESC_CLS[d[0]](tuple(d[1]), d[2])


def rd_desc(s):
    if s is None:
        return None
    return (type(s).__name__, tuple(s.atoms), s.parity)


def conv_attr_in(kind, key, val):
    if key == "reaction" and kind in ("CRG", "SCRG") and val in ROLE_ENUM:
        return ROLE_ENUM[val]
    return val


def conv_attr_out(key, val):
    if isinstance(val, Change):
        return ENUM_ROLE[val]
    return val


def build(m: RefGraph, order_rng=None, rewrite_rng=None):
    """fresh build of a model through public mutators only"""
    g = CLS[m.kind]()
    atoms = list(m.atoms)
    bonds = list(m.bonds)
    if order_rng == "element":
        # as read from a file that lists the atoms element by element
        atoms.sort(key=lambda a: (m.atoms[a]["atom_type"], a))
        bonds.sort(key=lambda b: tuple(sorted(b)))
        order_rng = None
    elif order_rng is not None:
        atoms.sort()
        bonds.sort(key=lambda b: tuple(sorted(b)))
        order_rng.shuffle(atoms)
        order_rng.shuffle(bonds)
    for a in atoms:
        at = dict(m.atoms[a])
        z = at.pop("atom_type")
        g.add_atom(a, z, **at)
    for b in bonds:
        x, y = sorted(b)
        if order_rng is not None and order_rng.random() < 0.5:
            x, y = y, x
        at = {k: conv_attr_in(m.kind, k, v) for k, v in m.bonds[b].items()}
        g.add_bond(x, y, **at)
    rw = (lambda d: geom.random_rewrite(d, rewrite_rng)) if rewrite_rng is not None else (lambda d: d)
    items = [("a", d) for d in m.astereo.values()] + [("b", d) for d in m.bstereo.values()]
    ch = [("ac", t) for t in m.achange.values()] + [("bc", t) for t in m.bchange.values()]
    if order_rng is not None:
        items.sort(key=repr)
        ch.sort(key=repr)
        order_rng.shuffle(items)
        order_rng.shuffle(ch)
    for w, d in items:
        if w == "a":
            g.set_atom_stereo(mk_desc(rw(d)))
        else:
            g.set_bond_stereo(mk_desc(rw(d)))
    for w, t in ch:
        kw = {r.lower(): mk_desc(rw(d)) for r, d in t.items()}
        if not kw:
            continue
        if w == "ac":
            g.set_atom_stereo_change(**kw)
        else:
            g.set_bond_stereo_change(**kw)
    return g


# ----------------------------------------------------------------------
def apply_mutator(g, kind, op):
    """issue one primitive mutator; exceptions propagate"""
    k = op["k"]
    if k == "add_atom":
        return g.add_atom(op["a"], op["t"], **op.get("kw", {}))
    if k == "remove_atom":
        return g.remove_atom(op["a"])
    if k == "add_bond":
        kw = {kk: conv_attr_in(kind, kk, v) for kk, v in op.get("kw", {}).items()}
        return g.add_bond(op["a"], op["b"], **kw)
    if k == "add_formed_bond":
        return g.add_formed_bond(op["a"], op["b"], **op.get("kw", {}))
    if k == "add_broken_bond":
        return g.add_broken_bond(op["a"], op["b"], **op.get("kw", {}))
    if k == "add_fleeting_bond":
        return g.add_fleeting_bond(op["a"], op["b"], **op.get("kw", {}))
    if k == "remove_bond":
        return g.remove_bond(op["a"], op["b"])
    if k == "set_atom_attr":
        return g.set_atom_attribute(op["a"], op["key"], op["val"])
    if k == "del_atom_attr":
        return g.delete_atom_attribute(op["a"], op["key"])
    if k == "set_bond_attr":
        return g.set_bond_attribute(op["a"], op["b"], op["key"],
                                    conv_attr_in(kind, op["key"], op["val"]))
    if k == "del_bond_attr":
        return g.delete_bond_attribute(op["a"], op["b"], op["key"])
    if k == "set_astereo":
        return g.set_atom_stereo(mk_desc(op["d"]))
    if k == "del_astereo":
        return g.delete_atom_stereo(op["a"])
    if k == "set_bstereo":
        return g.set_bond_stereo(mk_desc(op["d"]))
    if k == "del_bstereo":
        return g.delete_bond_stereo((op["a"], op["b"]))
    if k in ("set_achange", "set_bchange"):
        # equal descriptors given for two roles are one and the same object,
        # as in set_atom_stereo_change(broken=d, formed=d)
        made = {}
        kw = {}
        for r in ROLES:
            d = op.get(r.lower())
            if d is not None:
                key = json.dumps(d)
                if key not in made:
                    made[key] = mk_desc(d)
                kw[r.lower()] = made[key]
        if k == "set_achange":
            return g.set_atom_stereo_change(**kw)
        return g.set_bond_stereo_change(**kw)
    if k == "del_achange":
        role = op.get("role")
        if role is None:
            return g.delete_atom_stereo_change(op["a"])
        return g.delete_atom_stereo_change(op["a"], ROLE_ENUM[role])
    if k == "del_bchange":
        role = op.get("role")
        if role is None:
            return g.delete_bond_stereo_change((op["a"], op["b"]))
        return g.delete_bond_stereo_change((op["a"], op["b"]), ROLE_ENUM[role])
    raise KeyError(k)


# ----------------------------------------------------------------------
class SnapError(Exception):
    """a view could not be read at all"""

    def __init__(self, field, exc):
        super().__init__(f"{field}: {type(exc).__name__}: {exc}")
        self.field = field
        self.exc = exc


def _try(field, fn):
    try:
        return fn()
    except CallTimeout:
        raise
    except Exception as e:  # noqa: BLE001
        raise SnapError(field, e)


def snapshot(g, universe=()):
    """view of the real object comparable with RefGraph.view(); returns
    (view, problems) where problems lists internal disagreements between
    views of the same object."""
    problems = []
    v = {}
    v["class"] = type(g).__name__
    kind = KIND_OF.get(v["class"])
    atoms = _try("atoms", lambda: list(g.atoms))
    if len(set(atoms)) != len(atoms):
        problems.append("atoms:duplicates")
    v["atoms"] = sorted(atoms)
    aset = set(atoms)
    awa = _try("atoms_with_attributes", lambda: {a: dict(at) for a, at in g.atoms_with_attributes.items()})
    if set(awa) != aset:
        problems.append("atoms_with_attributes:keys")
    try:
        types = list(g.atom_types)
    except CallTimeout:
        raise
    except Exception as e:  # noqa: BLE001
        problems.append(f"atom_types:raises:{type(e).__name__}")
        types = None
    if types is not None:
        if len(types) != len(atoms):
            problems.append("atom_types:length")
        else:
            for a, t in zip(atoms, types):
                if awa.get(a, {}).get("atom_type") != t:
                    problems.append("atom_types:misaligned")
                    break
    v["atom_attrs"] = {a: tuple(sorted((k, conv_attr_out(k, x)) for k, x in at.items()))
                       for a, at in awa.items()}
    if _try("n_atoms", lambda: g.n_atoms) != len(atoms) or _try("len", lambda: len(g)) != len(atoms):
        problems.append("n_atoms")
    bonds = _try("bonds", lambda: [frozenset(b) for b in g.bonds])
    v["bonds"] = sorted(tuple(sorted(b)) for b in bonds)
    for b in bonds:
        if len(b) != 2:
            problems.append("bonds:degenerate")
        if not b <= aset:
            problems.append("bonds:unknown-atom")
    bwa = _try("bonds_with_attributes", lambda: {frozenset(b): dict(at) for b, at in g.bonds_with_attributes.items()})
    if set(bwa) != set(bonds):
        problems.append("bonds_with_attributes:keys")
    v["bond_attrs"] = {tuple(sorted(b)): tuple(sorted((k, conv_attr_out(k, x)) for k, x in at.items()))
                       for b, at in bwa.items()}
    nb = _try("neighbors", lambda: {a: set(n) for a, n in g.neighbors.items()})
    stale = sorted(a for a in nb if a not in aset)
    if stale:
        problems.append("neighbors:key-not-an-atom")
    v["neighbors"] = {a: tuple(sorted(n)) for a, n in nb.items() if n and a in aset}
    for a, n in nb.items():
        if a in aset and not n <= aset:
            problems.append("neighbors:unknown-atom")
            break

    # ---- indexed / computing reads on a private deep copy
    c = _try("deepcopy", lambda: copy.deepcopy(g))
    try:
        bt = {a: tuple(sorted(c.bonded_to(a))) for a in atoms}
    except CallTimeout:
        raise
    except Exception as e:  # noqa: BLE001
        problems.append(f"bonded_to:raises:{type(e).__name__}")
        bt = None
    if bt is not None and {a: n for a, n in bt.items() if n} != v["neighbors"]:
        problems.append("bonded_to:differs-from-neighbors")
    try:
        cm = c.connectivity_matrix()
        order = list(c.atoms)
        n = len(order)
        if cm.shape != (n, n):
            problems.append("connectivity_matrix:shape")
        else:
            pairs = set()
            ok = True
            for i in range(n):
                if cm[i][i] != 0:
                    ok = False
                for j in range(i + 1, n):
                    if cm[i][j] != cm[j][i] or cm[i][j] not in (0, 1):
                        ok = False
                    if cm[i][j]:
                        pairs.add(tuple(sorted((order[i], order[j]))))
            if not ok:
                problems.append("connectivity_matrix:malformed")
            if sorted(pairs) != v["bonds"]:
                problems.append("connectivity_matrix:differs-from-bonds")
    except CallTimeout:
        raise
    except Exception as e:  # noqa: BLE001
        problems.append(f"connectivity_matrix:raises:{type(e).__name__}")
    try:
        comps = c.connected_components()
        v["components"] = sorted(tuple(sorted(x)) for x in comps)
    except CallTimeout:
        raise
    except Exception as e:  # noqa: BLE001
        problems.append(f"connected_components:raises:{type(e).__name__}")
        v["components"] = None
    for a in universe:
        if c.has_atom(a) != (a in aset):
            problems.append("has_atom")
            break
    bset = set(bonds)
    for i, a in enumerate(universe):
        for b in universe[i + 1:]:
            if c.has_bond(a, b) != (frozenset((a, b)) in bset):
                problems.append("has_bond")
                break

    if kind in ("SMG", "SCRG"):
        ast = _try("atom_stereo", lambda: dict(g.atom_stereo))
        bst = _try("bond_stereo", lambda: dict(g.bond_stereo))
        v["astereo"] = {}
        for a, s in ast.items():
            d = rd_desc(s)
            if d[1][0] != a:
                problems.append("atom_stereo:key-differs-from-centre")
            v["astereo"][a] = geom.canon(d)
        v["bstereo"] = {}
        for b, s in bst.items():
            d = rd_desc(s)
            if frozenset((d[1][2], d[1][3])) != frozenset(b):
                problems.append("bond_stereo:key-differs-from-centre")
            v["bstereo"][tuple(sorted(b))] = geom.canon(d)
        try:
            st = dict(c.stereo)
            if len(st) != len(ast) + len(bst):
                problems.append("stereo:size")
        except CallTimeout:
            raise
        except Exception as e:  # noqa: BLE001
            problems.append(f"stereo:raises:{type(e).__name__}")
        for a in atoms:
            try:
                s = c.get_atom_stereo(a)
            except CallTimeout:
                raise
            except Exception as e:  # noqa: BLE001
                problems.append(f"get_atom_stereo:raises:{type(e).__name__}")
                break
            if geom.canon(rd_desc(s)) != v["astereo"].get(a):
                problems.append("get_atom_stereo:differs")
                break
        for b in bonds:
            try:
                s = c.get_bond_stereo(b)
            except CallTimeout:
                raise
            except Exception as e:  # noqa: BLE001
                problems.append(f"get_bond_stereo:raises:{type(e).__name__}")
                break
            if geom.canon(rd_desc(s)) != v["bstereo"].get(tuple(sorted(b))):
                problems.append("get_bond_stereo:differs")
                break
    if kind in ("CRG", "SCRG"):
        for r, fn in (("formed", "get_formed_bonds"), ("broken", "get_broken_bonds"),
                      ("fleeting", "get_fleeting_bonds")):
            try:
                v[r] = sorted(tuple(sorted(b)) for b in getattr(c, fn)())
            except CallTimeout:
                raise
            except Exception as e:  # noqa: BLE001
                problems.append(f"{fn}:raises:{type(e).__name__}")
                v[r] = None
    if kind == "SCRG":
        ac = _try("atom_stereo_changes", lambda: {a: dict(t) for a, t in g.atom_stereo_changes.items()})
        bc = _try("bond_stereo_changes", lambda: {frozenset(b): dict(t) for b, t in g.bond_stereo_changes.items()})
        if any(a not in aset for a in ac):
            problems.append("atom_stereo_changes:key-not-an-atom")
        v["achange"] = {}
        for a, t in ac.items():
            tt = {}
            for r, s in t.items():
                if s is None:
                    continue
                d = rd_desc(s)
                if d[1][0] != a:
                    problems.append("atom_stereo_changes:key-differs-from-centre")
                tt[ENUM_ROLE[r]] = geom.canon(d)
            if tt:
                v["achange"][a] = tt
        v["bchange"] = {}
        for b, t in bc.items():
            tt = {}
            for r, s in t.items():
                if s is None:
                    continue
                d = rd_desc(s)
                if frozenset((d[1][2], d[1][3])) != b:
                    problems.append("bond_stereo_changes:key-differs-from-centre")
                tt[ENUM_ROLE[r]] = geom.canon(d)
            if tt:
                v["bchange"][tuple(sorted(b))] = tt
    return v, problems


def diff_views(rv, mv):
    """names of the fields in which the real view differs from the model"""
    out = []
    for k in mv:
        if k not in rv:
            out.append(k + ":missing")
        elif rv[k] != mv[k]:
            out.append(k)
    for k in rv:
        if k not in mv:
            out.append(k + ":unexpected")
    return out


def adopt(g) -> RefGraph:
    """model read back from a real object (exact descriptors)"""
    kind = KIND_OF[type(g).__name__]
    m = RefGraph(kind)
    for a, at in g.atoms_with_attributes.items():
        m.atoms[a] = {k: conv_attr_out(k, x) for k, x in at.items()}
    for b, at in g.bonds_with_attributes.items():
        m.bonds[frozenset(b)] = {k: conv_attr_out(k, x) for k, x in at.items()}
    if m.is_stereo:
        for a, s in g.atom_stereo.items():
            m.astereo[a] = rd_desc(s)
        for b, s in g.bond_stereo.items():
            m.bstereo[frozenset(b)] = rd_desc(s)
    if m.has_changes:
        for a, t in g.atom_stereo_changes.items():
            tt = {ENUM_ROLE[r]: rd_desc(s) for r, s in t.items() if s is not None}
            if tt:
                m.achange[a] = tt
        for b, t in g.bond_stereo_changes.items():
            tt = {ENUM_ROLE[r]: rd_desc(s) for r, s in t.items() if s is not None}
            if tt:
                m.bchange[frozenset(b)] = tt
    return m
