"""Self tests of the machinery: determinism proof and oracle checks.

  ./check selftest determinism [n_seeds]
  ./check selftest oracle
"""
from __future__ import annotations

import json
import os
import subprocess
import sys
import time
from concurrent.futures import ProcessPoolExecutor
import multiprocessing as mp

VERIF = os.path.dirname(os.path.dirname(os.path.abspath(__file__)))
PROFS = ["C01", "C02", "C03", "C05", "C06", "C08", "C09", "C10", "C11", "C15", "C16", "C17", "C19"]


def digest_one(args):
    prop, tier, base, idx = args
    from . import runner
    seed = f"{base}/{prop}/{idx}"
    cfg, ops, _mw = runner.run_seed(prop, tier, seed)
    w = runner.execute(prop, cfg, ops, ())
    import hashlib
    return (prop, idx, hashlib.sha1(json.dumps(ops, sort_keys=True, default=repr).encode()).hexdigest()[:12],
            runner.log_digest(w))


def worker_main(argv):
    tier, base, lo, hi = argv[0], argv[1], int(argv[2]), int(argv[3])
    out = []
    for prop in PROFS:
        for idx in range(lo, hi):
            out.append(digest_one((prop, tier, base, idx)))
    print("DIGESTS " + json.dumps(out))


def determinism(n=40, tier="quick", base="777"):
    t0 = time.time()
    jobs = [(p, tier, base, i) for p in PROFS for i in range(n)]
    # (a) in-process, sequential, twice
    a1 = [digest_one(j) for j in jobs[::7]]
    a2 = [digest_one(j) for j in jobs[::7]]
    assert a1 == a2, "same seed twice in one process diverged"
    # (b) 16 forked workers
    with ProcessPoolExecutor(max_workers=16, mp_context=mp.get_context("fork")) as ex:
        b = list(ex.map(digest_one, jobs, chunksize=4))
    ref = {(p, i): (od, ld) for p, i, od, ld in b}
    for p, i, od, ld in a1:
        assert ref[(p, i)] == (od, ld), f"1 vs 16 workers diverged at {p}/{i}"
    # (c) fresh interpreters under other string-hash seeds
    procs = []
    per = max(1, n // 4)
    for hs in ("0", "1", "4242", "random"):
        for lo in range(0, n, per):
            env = {**os.environ, "PYTHONHASHSEED": hs}
            procs.append((hs, subprocess.Popen(
                [sys.executable, "-m", "sim.selftest", "--worker", tier, base, str(lo), str(min(n, lo + per))],
                cwd=VERIF, stdout=subprocess.PIPE, stderr=subprocess.PIPE, text=True, env=env)))
    bad = []
    compared = 0
    for hs, p in procs:
        so, se = p.communicate(timeout=1800)
        line = [l for l in so.splitlines() if l.startswith("DIGESTS ")]
        if p.returncode != 0 or not line:
            raise RuntimeError(f"worker PYTHONHASHSEED={hs} failed: {se[-2000:]}")
        for prop, idx, od, ld in json.loads(line[0][8:]):
            compared += 1
            if ref[(prop, idx)] != (od, ld):
                bad.append((hs, prop, idx, ref[(prop, idx)], (od, ld)))
    print(f"determinism: {len(jobs)} runs x (2 in-process, 16 workers, 4 fresh interpreters with PYTHONHASHSEED 0/1/4242/random); "
          f"{compared} cross comparisons; divergences: {len(bad)}; {time.time() - t0:.0f}s")
    for x in bad[:10]:
        print("  DIVERGED", x)
    return 1 if bad else 0


def oracle():
    from . import geom, brute, model, real
    geom.selftest()
    n = brute.selftest()
    # geometric groups vs. the library's tables (all classes coincide on the repaired tree)
    diffs = []
    for c in geom.CLASSES:
        lib = set(tuple(p) for p in real.DESC_CLS[c].PERMUTATION_GROUP)
        if lib != set(geom.PROPER[c]):
            diffs.append(c)
        inv = real.DESC_CLS[c].inversion
        if geom.CHIRAL[c]:
            assert inv is not None and tuple(inv) in geom.IMPROPER[c], c
        else:
            assert inv is None, c
    # model semantics: hand-written expectations
    m = model.RefGraph("SCRG")
    for op in (dict(k="add_atom", a=1, t="C"), dict(k="add_atom", a=2, t="h"), dict(k="add_atom", a=3, t=8),
               dict(k="add_bond", a=1, b=2, kw={}), dict(k="add_formed_bond", a=1, b=3, kw={}),
               dict(k="set_astereo", d=["Tetrahedral", [1, 2, 3, None, None], 1]),
               dict(k="set_achange", broken=None, fleeting=None, formed=["Tetrahedral", [3, 1, None, None, None], -1])):
        v, eff = model.judge(m, op)
        assert v == "OK", (op, v)
        eff()
    assert m.atoms[2]["atom_type"] == 1 and m.bonds[frozenset((1, 3))] == {"reaction": "FORMED"}
    assert model.judge(m, dict(k="add_bond", a=1, b=1, kw={}))[0] == "MUST"
    assert model.judge(m, dict(k="add_bond", a=1, b=9, kw={}))[0] == "MUST"
    assert model.judge(m, dict(k="add_atom", a=9, t="Xx"))[0] == "MUST"
    assert model.judge(m, dict(k="del_atom_attr", a=1, key="atom_type"))[0] == "MUST"
    assert model.judge(m, dict(k="del_astereo", a=2))[0] == "MAY"
    v, eff = model.judge(m, dict(k="remove_atom", a=3))
    eff()
    assert 3 not in m.atoms and not m.achange and frozenset((1, 3)) not in m.bonds and 1 not in m.astereo
    r = model.side(m, "R")
    assert r.kind == "SMG"
    # relabel o inverse = identity
    g = model.RefGraph("SMG")
    for a, z in ((0, 6), (5, 1), (7, 8)):
        g.atoms[a] = {"atom_type": z}
    g.bonds[frozenset((0, 5))] = {"x": 1}
    g.astereo[0] = ("Tetrahedral", (0, 5, 7, None, None), 1)
    mp_ = {0: 9, 5: 0}
    back = model.relabel(model.relabel(g, mp_), {9: 0, 0: 5})
    assert back.view() == g.view()
    print(f"oracle: geometric groups ok (classes whose library table differs from the rotation group: {diffs or 'none'}); "
          f"brute force agrees with canonical-relabelling formulation on {n} pairs; model expectations ok")
    return 1 if diffs else 0


REACH = {
    # property: counters (in coverage.probes / faults_fired / operations) that must be > 0 after a quick run
    "C01": ["twin:fresh", "twin:relabel", "twin:self", "twin:detour", "twin:empty", "twin:has-isolated-atom", "twin_eq_checked"],
    "C02": ["pair:expected-False", "pair:expected-True", "pair:cross-class", "pair:variants", "mutant:element",
            "mutant:add_bond", "mutant:flip", "mutant:role", "mutant:swap_ligands", "op:spec",
            "prelude:unspecified-sketch", "mutant:grouped-by-element", "bulk_graphs"],
    "C03": ["twin_hash_checked", "cross_hash_values_compared", "fault:F5:restart-hashseed-1", "fault:F5:restart-hashseed-4242"],
    "C05": ["enum_exhausted_checked", "enum_cancelled_checked", "enum_ge8_automorphisms", "enum_prefix_checked_above_bound",
            "symnum_checked", "fault:F2:close", "fault:F2:throw", "fault:F2:drop", "fault:F3:clear-yielded", "fault:F3:mutate-yielded",
            "fault:F3:edit-label-dict"],
    "C06": ["enant:expected-False", "enant:expected-True", "op:enantiomer", "enant:equals-fresh-mirror"],
    "C08": ["from_graphs_observables_ok", "from_graphs:atom:ts=r=p", "from_graphs:atom:ts-differs-from-both", "from_graphs:atom:r=p",
            "from_graphs:atom:only-p", "from_graphs:atom:only-r", "from_graphs:atom:r!=p", "from_graphs:atom:r!=p:class-change",
            "from_graphs:with-ts", "from_graphs:without-ts", "op:reverse", "op:reactant", "op:product"],
    "C09": ["op:remove_atom", "op:relabel", "q:LOOKUP", "q:VAL", "bulk_graphs", "verdict:OK", "verdict:MUST", "verdict:MAY"],
    "C10": ["nontarget_snapshots", "op:copy", "op:ctor", "op:relabel", "op:subgraph", "op:compose", "op:enantiomer", "op:reverse",
            "op:reactant", "op:product", "op:from_graphs", "op:deserialize", "isomers_checked", "fault:F1:derivation:compose"],
    "C11": ["op:relabel", "twin:relabel", "bulk_graphs", "fault:F3:mapping-dictionary-reused"],
    "C15": ["roundtrip_equal_checked", "fault:F6:restore", "fault:F6:reencode", "fault:F6:damaged-text:class",
            "fault:F6:damaged-text:short", "roundtrip_hash_vs_saved_object_checked"],
    "C16": ["pair:signature-differs", "flip:astereo", "flip:bstereo", "isomers_checked", "mutant:exchange", "fault:F3:edit-yielded-isomer"],
    "C17": ["op:subgraph", "op:compose", "fault:F4:iterator", "fault:F4:generator", "bulk_graphs", "fault:F1:derivation:compose"],
    "C19": ["fault:F1:unknown atom", "fault:F1:unknown bond", "fault:F1:self bond", "fault:F1:atom type is no element",
            "fault:F1:reaction label of the wrong type", "fault:F1:element attribute deleted", "fault:F1:several centres at once",
            "fault:F1:descriptor centred on unknown atom", "fault:F1:descriptor centred on unknown bond",
            "fault:F1:change centred on unknown atom", "fault:F1:change centred on unknown bond", "fault:F1:lookup-absent",
            "fault:noise:xyz"],
}


def reach():
    """every 'rare condition hit' counter a property relies on must be non-zero
    in the evidence its last run wrote"""
    bad = []
    for prop, keys in REACH.items():
        path = os.path.join(VERIF, "evidence", prop + ".json")
        try:
            cov = json.load(open(path))["coverage"]
        except Exception as e:  # noqa: BLE001
            bad.append((prop, "no evidence: " + str(e)))
            continue
        flat = {}
        flat.update(cov.get("probes", {}))
        flat.update({"fault:" + k: v for k, v in cov.get("faults_fired", {}).items()})
        flat.update({"op:" + k: v for k, v in cov.get("operations", {}).items()})
        flat.update({"verdict:" + k: v for k, v in cov.get("verdicts", {}).items()})
        flat.update({"q:" + k: v for k, v in cov.get("queries", {}).items()})
        for k in keys:
            if not flat.get(k):
                bad.append((prop, k))
    print(f"reach: {sum(len(v) for v in REACH.values())} counters over {len(REACH)} properties; stuck at zero: {bad or 'none'}")
    return 1 if bad else 0


def main(argv):
    if argv and argv[0] == "--worker":
        worker_main(argv[1:])
        return 0
    what = argv[0] if argv else "all"
    rc = 0
    if what in ("oracle", "all"):
        rc |= oracle()
    if what == "reach":
        return reach()
    if what in ("determinism", "all"):
        rc |= determinism(int(argv[1]) if len(argv) > 1 else 40)
    return rc


if __name__ == "__main__":
    if os.environ.get("PYTHONHASHSEED") is None:
        os.environ["PYTHONHASHSEED"] = "0"
        os.execv(sys.executable, [sys.executable, "-m", "sim.selftest"] + sys.argv[1:])
    sys.exit(main(sys.argv[1:]))
