"""Batch runner: seeded search, known findings, shrinking, replay, evidence."""
from __future__ import annotations

import argparse
import fnmatch
import hashlib
import json
import os
import random
import subprocess
import sys
import time
import traceback
from collections import Counter
from concurrent.futures import ProcessPoolExecutor, as_completed
import multiprocessing as mp

VERIF = os.path.dirname(os.path.dirname(os.path.abspath(__file__)))
OUT = os.path.join(VERIF, "out")
EVID = os.environ.get("VERIF_EVIDENCE_DIR") or os.path.join(VERIF, "evidence")
KNOWN_FILE = os.path.join(VERIF, "known_findings.json")

CLAIMED = ["C01", "C02", "C03", "C05", "C06", "C08", "C09", "C10", "C11", "C15", "C16", "C17", "C19"]
LEVEL = {p: "exploration" for p in CLAIMED}
LEVEL["C19"] = "fault_enumeration"
DEFAULT_SEED = {"quick": 20261003, "thorough": 7}
BUDGET = {"quick": 40.0, "thorough": 600.0}
RUN_LIMIT = {"quick": 120, "thorough": 240}     # wall limit of one simulated run, seconds


# ----------------------------------------------------------------------
def preload():
    """import the library and the engine once in the parent so that forked
    children (one per simulated run) do not pay for it again"""
    from . import gen, world, probes, real, brute, geom, model  # noqa: F401


def load_known():
    try:
        with open(KNOWN_FILE) as f:
            data = json.load(f)
    except FileNotFoundError:
        return []
    return [e for e in data.get("findings", []) if e.get("status") == "open"]


def make_known(prop, entries):
    pats = [(e["property"], e["signature"], e) for e in entries]

    def known(v):
        for p, sig, e in pats:
            if p in v.props and fnmatch.fnmatchcase(v.sig, sig):
                v.known_entry = e
                return True
        return False
    return known


def run_seed(prop, tier, seed):
    from . import gen
    return gen.generate(f"{seed}", prop, tier)


def execute(prop, cfg, ops, known_entries=(), record_hashes=False, stop=True):
    """execute an operation list against the real library; returns world"""
    from .world import World
    w = World(real=True, universe=cfg["ids"], known=make_known(prop, known_entries),
              max_slots=cfg.get("max_slots", 12), check_all_every=cfg.get("check_all_every", 8),
              record_hashes=record_hashes)
    w.nontarget_enabled = cfg.get("nontarget", False)
    w.own = prop
    w.run(ops, stop_on_violation=False)
    return w


def own_violations(w, prop):
    return [v for v in w.violations if prop in v.props]


def isolated(fn, *args, limit=600):
    """run fn(*args) in a forked child so that no process-global state of the
    library (caches, memo tables) leaks from one simulated run into the next:
    one seed = one exactly repeatable execution, also in a fresh interpreter"""
    import pickle
    r, wfd = os.pipe()
    pid = os.fork()
    if pid == 0:
        code = 0
        try:
            os.close(r)
            import signal as _s
            _s.signal(_s.SIGTERM, _s.SIG_DFL)
            try:
                res = fn(*args)
            except BaseException as e:  # noqa: BLE001
                res = dict(harness_error=f"{type(e).__name__}: {e}\n{traceback.format_exc()}")
            with os.fdopen(wfd, "wb") as f:
                pickle.dump(res, f)
        except BaseException:  # noqa: BLE001
            code = 1
        finally:
            os._exit(code)
    os.close(wfd)
    data = b""
    t0 = time.time()
    import select
    with os.fdopen(r, "rb") as f:
        while True:
            left = limit - (time.time() - t0)
            if left <= 0:
                try:
                    os.kill(pid, 9)
                except OSError:
                    pass
                os.waitpid(pid, 0)
                return dict(harness_error=f"HARNESS-TIMEOUT: run exceeded {limit}s")
            rd, _, _ = select.select([f], [], [], min(left, 5.0))
            if rd:
                chunk = f.read1(1 << 20) if hasattr(f, "read1") else f.read()
                if not chunk:
                    break
                data += chunk
    os.waitpid(pid, 0)
    if not data:
        return dict(harness_error="child died without a result")
    return pickle.loads(data)


def one_run(args):
    # a single run that takes minutes (an astronomically symmetric or very
    # large graph on a loaded machine) is abandoned: it is not evidence either
    # way and is counted as such
    res = isolated(_one_run, args, limit=RUN_LIMIT[args[1]])
    if "harness_error" in res and "idx" not in res:
        if "HARNESS-TIMEOUT" in res["harness_error"]:
            return dict(idx=args[3], seed=f"{args[2]}/{args[0]}/{args[3]}", abandoned=True)
        res = dict(idx=args[3], seed=f"{args[2]}/{args[0]}/{args[3]}", harness_error=res["harness_error"])
    return res


def _one_run(args):
    prop, tier, base_seed, idx, known_entries = args
    t0 = time.time()
    seed = f"{base_seed}/{prop}/{idx}"
    try:
        cfg, ops, mw = run_seed(prop, tier, seed)
        w = execute(prop, cfg, ops, known_entries, record_hashes=(prop == "C03"))
    except BaseException as e:  # noqa: BLE001
        return dict(idx=idx, seed=seed, harness_error=f"{type(e).__name__}: {e}\n{traceback.format_exc()}")
    own = own_violations(w, prop)
    foreign = [v for v in w.violations if prop not in v.props]
    known_own = [v for v in w.known_hits if prop in v.props]
    res = dict(idx=idx, seed=seed, n_ops=len(ops), stats=dict(w.stats),
               own=[v.as_dict() for v in own[:1]],
               foreign=Counter(";".join(v.props) + ":" + v.sig.split("|")[0] + "|" + v.sig.split("|")[-1] for v in foreign),
               known=[(v.sig, v.known_entry.get("id")) for v in known_own],
               wall=time.time() - t0, log_digest=log_digest(w),
               state_digests=state_digests(mw), kinds=op_kind_pairs(ops))
    if w.slow:
        res["slow"] = dict(cfg=cfg, ops=ops, where=w.slow)
    if own:
        res["cfg"] = cfg
        res["ops"] = ops
    elif foreign and os.environ.get("VERIF_KEEP_FOREIGN"):
        res["foreign_case"] = dict(cfg=cfg, ops=ops, v=foreign[0].as_dict())
    if idx < 3:
        res["sample"] = ops[:25]
    if prop == "C03":
        res["hashes"] = [x for x in w.log if x[0] == "hash"]
    return res


def log_digest(w):
    h = hashlib.sha256()
    for e in w.log:
        h.update(repr(e).encode())
    for v in w.violations:
        h.update(v.sig.encode())
    # counters that depend on wall-clock (watchdog re-confirmations) stay out
    h.update(repr(sorted((k, v) for k, v in w.stats.items() if not k.startswith(("snap", "slow")))).encode())
    return h.hexdigest()[:16]


def state_digests(mw):
    """distinct model states at the end of the run (coverage measure)"""
    out = []
    for s, sl in sorted(mw.slots.items()):
        if sl.kind == "graph":
            out.append(hashlib.sha1(repr(sl.model.digest_tuple()).encode()).hexdigest()[:12])
    return out


def op_kind_pairs(ops):
    c = set()
    prev = None
    for op in ops:
        k = op["k"] if op["k"] != "q" else "q:" + op["q"]
        if prev is not None:
            c.add(prev + ">" + k)
        prev = k
    return sorted(c)


# ----------------------------------------------------------------------
# shrinking (delta debugging on the operation list)

def shrink(prop, cfg, ops, sig, known_entries, deadline):
    def _fails(cand):
        try:
            w = execute(prop, cfg, cand, known_entries)
        except Exception:  # noqa: BLE001
            return False
        return any(v.sig == sig for v in own_violations(w, prop))

    def fails(cand):
        return isolated(_fails, cand) is True

    # cut everything after the failing step first
    def _first(ops_):
        w = execute(prop, cfg, ops_, known_entries)
        vs = [v for v in own_violations(w, prop) if v.sig == sig]
        return vs[0].step if vs else None
    st = isolated(_first, ops)
    if isinstance(st, int):
        ops = ops[:st + 1]
    n = 2
    while len(ops) >= 2 and time.time() < deadline:
        chunk = max(1, len(ops) // n)
        reduced = False
        for i in range(0, len(ops), chunk):
            cand = ops[:i] + ops[i + chunk:]
            if cand and fails(cand):
                ops = cand
                n = max(n - 1, 2)
                reduced = True
                break
            if time.time() > deadline:
                break
        if not reduced:
            if chunk == 1:
                break
            n = min(n * 2, len(ops))
    return ops


def write_replay(prop, tier, seed, cfg, ops, v, minimised):
    os.makedirs(os.path.join(OUT, "replays"), exist_ok=True)
    dg = hashlib.sha1((v["signature"] + repr(ops)).encode()).hexdigest()[:10]
    path = os.path.join(OUT, "replays", f"{prop}-{dg}.json")
    with open(path, "w") as f:
        json.dump(dict(property=prop, tier=tier, seed=seed, config=cfg, ops=ops,
                       expected_signature=v["signature"], detail=v.get("detail"),
                       minimised=minimised, callers=sorted({o.get("c", 0) for o in ops}),
                       faults=[o for o in ops if o.get("fault")],
                       env={"PYTHONHASHSEED": os.environ.get("PYTHONHASHSEED")}), f, indent=1, default=repr)
    return path


def replay_file(path, quiet=False):
    with open(path) as f:
        r = json.load(f)
    prop = r["property"]
    if r.get("kind") == "cross-interpreter":
        return replay_cross(r, quiet)
    w = execute(prop, r["config"], r["ops"], ())
    sigs = [v.sig for v in own_violations(w, prop)]
    ok = r["expected_signature"] in sigs
    if not quiet:
        for v in own_violations(w, prop):
            print(f"  step {v.step}: {v.sig}\n    {v.detail[:600]}")
        print(f"VIOLATION property={prop} replay={path}\nREPRODUCED" if ok else f"NOT REPRODUCED (got {sigs})")
    return ok


def fresh_replay(path):
    """replay in a fresh interpreter"""
    p = subprocess.run([sys.executable, "-m", "sim.runner", "--replay", path, "--quiet"],
                       cwd=VERIF, capture_output=True, text=True, timeout=600,
                       env={**os.environ, "PYTHONHASHSEED": "0"})
    return p.returncode == 1, p.stdout + p.stderr


# ----------------------------------------------------------------------
# C03: the same histories under other string-hash seeds

def hash_worker_main(argv):
    prop, tier, base_seed, lo, hi = argv[0], argv[1], argv[2], int(argv[3]), int(argv[4])
    out = {}
    for idx in range(lo, hi):
        seed = f"{base_seed}/{prop}/{idx}"
        cfg, ops, _mw = run_seed(prop, tier, seed)
        w = execute(prop, cfg, ops, (), record_hashes=True)
        out[idx] = dict(hashes=[list(x) for x in w.log if x[0] == "hash"], digest=log_digest(w))
    print("HASHLOG " + json.dumps(out))


def cross_interpreter(prop, tier, base_seed, n_runs, hashseeds, results_by_idx):
    """re-execute the first n_runs histories in fresh interpreters under other
    PYTHONHASHSEED values; all recorded hash values must coincide"""
    found = []
    stats = Counter()
    procs = []
    per = max(1, n_runs // 4)
    for hs in hashseeds:
        for lo in range(0, n_runs, per):
            hi = min(n_runs, lo + per)
            env = {**os.environ, "PYTHONHASHSEED": str(hs)}
            procs.append((hs, lo, hi, subprocess.Popen(
                [sys.executable, "-m", "sim.runner", "--hash-worker", prop, tier, str(base_seed), str(lo), str(hi)],
                cwd=VERIF, stdout=subprocess.PIPE, stderr=subprocess.PIPE, text=True, env=env)))
    for hs, lo, hi, p in procs:
        try:
            so, se = p.communicate(timeout=900)
        except subprocess.TimeoutExpired:
            p.kill()
            raise RuntimeError(f"hash worker {hs} {lo}-{hi} timed out")
        line = [l for l in so.splitlines() if l.startswith("HASHLOG ")]
        if p.returncode != 0 or not line:
            raise RuntimeError(f"hash worker failed rc={p.returncode}: {se[-2000:]}")
        data = json.loads(line[0][8:])
        stats[f"fault:F5:restart-hashseed-{hs}"] += len(data)
        for idx_s, d in data.items():
            idx = int(idx_s)
            ref = results_by_idx.get(idx)
            if ref is None:
                continue
            a = [list(x) for x in ref["hashes"]]
            b = d["hashes"]
            stats["cross_hash_values_compared"] += len(a)
            if a != b:
                found.append(dict(idx=idx, hashseed=hs, ref=a[:5], other=b[:5]))
            elif ref["log_digest"] != d["digest"]:
                # same hash values, other events differ: not a C03 matter
                # (equality and the rest are judged by their own checks)
                stats["log_digest_diverged_with_equal_hashes"] += 1
    return found, stats


def replay_cross(r, quiet):
    res = {}
    for hs in ("0", str(r["hashseed"])):
        p = subprocess.run([sys.executable, "-m", "sim.runner", "--hash-worker", r["property"], r["tier"],
                            str(r["base_seed"]), str(r["idx"]), str(r["idx"] + 1)], cwd=VERIF,
                           capture_output=True, text=True, timeout=600, env={**os.environ, "PYTHONHASHSEED": hs})
        line = [l for l in p.stdout.splitlines() if l.startswith("HASHLOG ")]
        res[hs] = json.loads(line[0][8:]) if line else None
    ok = res["0"] != res[str(r["hashseed"])]
    if not quiet:
        print(f"VIOLATION property={r['property']} replay=(cross-interpreter run {r['idx']})\nREPRODUCED" if ok else "NOT REPRODUCED")
    return ok


# ----------------------------------------------------------------------
def main_check(prop, tier, base_seed, budget, max_runs, workers, verbose=False):
    t0 = time.time()
    preload()
    known_entries = [e for e in load_known() if e["property"] == prop]
    # C03 spends the last part of its budget on re-executing histories in
    # fresh interpreters under other string-hash seeds
    deadline = t0 + (budget * 0.65 if prop == "C03" else budget)
    results = []
    harness_errors = []
    agg = Counter()
    foreign = Counter()
    known_hits = {}
    states = set()
    pairs = set()
    triples = set()
    first_violation = None
    samples = []
    ctx = mp.get_context("fork")
    idx = 0
    chunk = workers * 4
    with ProcessPoolExecutor(max_workers=workers, mp_context=ctx) as ex:
        pending = set()
        stop_submitting = False
        while True:
            while not stop_submitting and len(pending) < chunk and idx < max_runs and time.time() < deadline:
                pending.add(ex.submit(one_run, (prop, tier, base_seed, idx, known_entries)))
                idx += 1
            if not pending:
                break
            done = []
            try:
                for fut in as_completed(pending, timeout=max(5.0, deadline - time.time()) + RUN_LIMIT[tier] + 60):
                    done.append(fut)
                    break
            except Exception:  # noqa: BLE001  (timeout)
                harness_errors.append("HARNESS-TIMEOUT: worker did not return")
                for f in pending:
                    f.cancel()
                break
            for fut in done:
                pending.discard(fut)
                try:
                    r = fut.result()
                except BaseException as e:  # noqa: BLE001
                    harness_errors.append(f"worker died: {type(e).__name__}: {e}")
                    continue
                if r.get("abandoned"):
                    agg["runs_abandoned_at_wall_limit"] += 1
                    continue
                if "harness_error" in r:
                    harness_errors.append(r["seed"] + ": " + r["harness_error"])
                    continue
                results.append(r)
                agg.update(r["stats"])
                foreign.update(r["foreign"])
                for sig, kid in r["known"]:
                    known_hits.setdefault(kid, [0, sig, r["seed"]])[0] += 1
                states.update(r["state_digests"])
                pairs.update(r["kinds"])
                if r.get("sample") is not None and len(samples) < 3:
                    samples.append(dict(seed=r["seed"], ops=r["sample"]))
                if r.get("slow"):
                    os.makedirs(os.path.join(OUT, "slow"), exist_ok=True)
                    with open(os.path.join(OUT, "slow", f"{prop}-{r['idx']}.json"), "w") as f:
                        json.dump(dict(property=prop, seed=r["seed"], config=r["slow"]["cfg"], ops=r["slow"]["ops"],
                                       where=r["slow"]["where"], wall=r["wall"]), f, default=repr)
                if r.get("foreign_case"):
                    fc = r["foreign_case"]
                    os.makedirs(os.path.join(OUT, "foreign"), exist_ok=True)
                    fn = os.path.join(OUT, "foreign", f"{prop}-{'+'.join(fc['v']['props'])}-"
                                      f"{hashlib.sha1(fc['v']['signature'].encode()).hexdigest()[:8]}.json")
                    if not os.path.exists(fn):
                        with open(fn, "w") as f:
                            json.dump(dict(property=fc["v"]["props"][0], seed=r["seed"], config=fc["cfg"], ops=fc["ops"],
                                           expected_signature=fc["v"]["signature"], detail=fc["v"]["detail"]), f, default=repr)
                if r["own"] and first_violation is None:
                    first_violation = r
                    stop_submitting = True
            if time.time() > deadline or stop_submitting:
                stop_submitting = True
                # runs that have not started yet are dropped, running ones finish
                for f in list(pending):
                    if f.cancel():
                        pending.discard(f)
    n_runs = len(results)
    steps = sum(r["n_ops"] for r in results)
    extra_stats = Counter()
    cross_found = []
    if prop == "C03" and not first_violation and not harness_errors and results:
        by_idx = {r["idx"]: r for r in results}
        n_cross = min(len(results), 160 if tier == "quick" else 400)
        # contiguous prefix only
        n_cross = next((i for i in range(n_cross) if i not in by_idx), n_cross)
        hs = (1, 4242) if tier == "quick" else (1, 4242, "random", 31337)
        if n_cross:
            cross_found, extra_stats = cross_interpreter(prop, tier, base_seed, n_cross, hs, by_idx)
            agg.update(extra_stats)
    exit_code = 0
    lines = []
    viol_count = 0
    unreproduced = []
    if first_violation is not None:
        r = first_violation
        v = r["own"][0]
        ops = r["ops"]
        minimised = False
        try:
            small = shrink(prop, r["cfg"], ops, v["signature"], known_entries, time.time() + (30 if tier == "quick" else 120))
            if small and len(small) <= len(ops):
                ops, minimised = small, True
        except Exception as e:  # noqa: BLE001
            harness_errors.append(f"shrink failed: {e}")
        path = write_replay(prop, tier, r["seed"], r["cfg"], ops, v, minimised)
        ok, out = fresh_replay(path)
        if not ok and minimised:
            path = write_replay(prop, tier, r["seed"], r["cfg"], r["ops"], v, False)
            ok, out = fresh_replay(path)
        for _ in range(2):
            if ok:
                break
            ok, out = fresh_replay(path)
        if ok:
            lines.append(f"VIOLATION property={prop} replay={path}")
            lines.append(f"  signature: {v['signature']}  (seed {r['seed']}, {len(ops)} ops)")
            lines.append(f"  detail: {str(v['detail'])[:800]}")
            viol_count = 1
            exit_code = 1
        else:
            # seen once in a worker, absent in three fresh interpreters replaying
            # the same history: nothing that can be handed over as a replayable
            # violation.  Recorded in the evidence, not decided either way.
            unreproduced.append(dict(signature=v["signature"], seed=r["seed"]))
            print(f"INCONCLUSIVE: {v['signature']} (seed {r['seed']}) was observed once and did not reproduce "
                  f"in three fresh interpreters replaying the same history")
    for cf in cross_found[:1]:
        os.makedirs(os.path.join(OUT, "replays"), exist_ok=True)
        path = os.path.join(OUT, "replays", f"{prop}-cross-{cf['idx']}-{cf['hashseed']}.json")
        with open(path, "w") as f:
            json.dump(dict(property=prop, kind="cross-interpreter", tier=tier, base_seed=base_seed,
                           idx=cf["idx"], hashseed=cf["hashseed"], detail=cf), f, indent=1)
        lines.append(f"VIOLATION property={prop} replay={path}")
        lines.append(f"  hash values differ between PYTHONHASHSEED=0 and {cf['hashseed']} (run {cf['idx']})")
        viol_count += 1
        exit_code = 1
    for e in known_entries:
        kid = e.get("id")
        n, _sig, seed = known_hits.get(kid, (0, None, None))
        hit = f"re-confirmed {n}x in this run, e.g. seed {seed}" if n else "not reached in this run"
        lines.append(f"KNOWN-FINDING: property={prop} {e.get('what')} [{kid}; {hit}]")
    wall = time.time() - t0
    # ---------------- evidence
    faults = {k[6:]: v for k, v in agg.items() if k.startswith("fault:")}
    probes = {k: v for k, v in agg.items() if not k.startswith(("fault:", "op:", "verdict:", "q:"))}
    opsc = {k[3:]: v for k, v in agg.items() if k.startswith("op:")}
    ev = dict(
        property_id=prop, tier=tier, seed=base_seed if isinstance(base_seed, int) else 0,
        level=LEVEL[prop],
        coverage=dict(
            evaluations=steps,
            distinct_nontrivial=len(states),
            rule=("one evaluation = one scheduler step (one public API call, probe or generator step) executed on the real "
                  "library in lock step with the reference model; distinct_nontrivial = number of distinct canonical "
                  "model states (non-empty graphs: atoms+attributes, bonds+attributes, descriptors, changes) alive at the "
                  "end of the runs, measured by digest; 'op_kind_transitions' = distinct ordered pairs of consecutive "
                  "operation kinds"),
            samples=samples or [dict(note="no run completed")],
            runs=n_runs, run_seeds=f"{base_seed}/{prop}/0..{idx - 1}",
            runs_per_hour=int(n_runs / max(wall, 1e-9) * 3600),
            steps_per_hour=int(steps / max(wall, 1e-9) * 3600),
            simulated_time="not applicable - the library reads no clock; progress is counted in scheduler steps",
            op_kind_transitions=len(pairs),
            operations=dict(sorted(opsc.items())),
            verdicts={k[8:]: v for k, v in agg.items() if k.startswith("verdict:")},
            queries={k[2:]: v for k, v in agg.items() if k.startswith("q:")},
            faults_fired=dict(sorted(faults.items())),
            probes=dict(sorted(probes.items())),
            violations_attributed_to_other_properties=dict(foreign),
            known_findings_hit={k: v[0] for k, v in known_hits.items()},
            components=dict(real=["stereomolgraph.graphs.*", "stereomolgraph.algorithms.isomorphism",
                                  "stereomolgraph.algorithms.color_refine", "stereomolgraph.stereodescriptors",
                                  "stereomolgraph.experimental", "stereomolgraph.graph2rdmol (export query)", "numpy", "rdkit"],
                            simulated=["callers", "scheduler", "fault injector", "persistence store",
                                       "reference model", "geometric descriptor model", "brute-force isomorphism"],
                            stubbed=[]),
            harness_errors=harness_errors[:5],
            unreproduced_observations=unreproduced,
            exhaustive=False,
        ),
        assumptions=[
            "reference model encodes only what the property statements say; silent cases follow the pinned implementation",
            "exact isomorphism oracle only for <= 7 atoms, fully specified parities, descriptor atoms inside the graph",
            "a clean batch is evidence, not proof: histories are sampled by seeded search",
        ],
        wall_s=round(wall, 2), violations=viol_count,
    )
    os.makedirs(EVID, exist_ok=True)
    with open(os.path.join(EVID, f"{prop}.json"), "w") as f:
        json.dump(ev, f, indent=1, default=repr)
    print(f"[{prop}] tier={tier} seed={base_seed} runs={n_runs} steps={steps} wall={wall:.1f}s "
          f"states={len(states)} foreign={sum(foreign.values())} known_hits={sum(v[0] for v in known_hits.values())}")
    if verbose:
        for k, v in sorted(foreign.items()):
            print("   foreign", k, v)
        for r in sorted(results, key=lambda r: -r["wall"])[:3]:
            print(f"   slowest run {r['seed']}: {r['wall']:.1f}s, {r['n_ops']} ops")
    for l in lines:
        print(l)
    if harness_errors:
        for h in harness_errors[:3]:
            print("HARNESS-ERROR:", h[:3000])
        # a run the harness could not judge is not evidence either way; the
        # check is only declared unusable when that is more than an isolated
        # accident (or when a violation could not be reproduced)
        fatal = [h for h in harness_errors if "did not reproduce" in h or "HARNESS-TIMEOUT" in h or "worker died" in h]
        if exit_code == 0 and (fatal or len(harness_errors) > max(1, n_runs // 200)):
            exit_code = 2
    if agg.get("runs_abandoned_at_wall_limit", 0) > max(2, n_runs // 100) and exit_code == 0:
        print(f"HARNESS-ERROR: {agg['runs_abandoned_at_wall_limit']} runs abandoned at the wall limit")
        exit_code = 2
    if n_runs == 0 and exit_code == 0:
        print("HARNESS-ERROR: no run completed")
        exit_code = 2
    return exit_code


def triage(prop, tier, base_seed, n, shrink_s=15):
    """developer tool: group violations (all properties) by signature"""
    sig = {}
    cnt = Counter()
    for i in range(n):
        seed = f"{base_seed}/{prop}/{i}"
        cfg, ops, _ = run_seed(prop, tier, seed)
        w = execute(prop, cfg, ops, ())
        for v in w.violations:
            key = (v.props, v.sig)
            cnt[key] += 1
            sig.setdefault(key, (seed, cfg, ops, v))
    for key, c in cnt.most_common():
        seed, cfg, ops, v = sig[key]
        print(f"\n#### {c}x {key}  first seed {seed} step {v.step}")
        print("   detail:", v.detail[:700])
        p0 = v.props[0]
        try:
            small = shrink(p0, cfg, ops, v.sig, (), time.time() + shrink_s)
        except Exception as e:  # noqa: BLE001
            small = ops[:v.step + 1]
        for o in small[-14:]:
            print("     ", o)


def shrink_file(path):
    with open(path) as f:
        r = json.load(f)
    prop = r["property"]
    small = shrink(prop, r["config"], r["ops"], r["expected_signature"], (), time.time() + 60)
    print(r["expected_signature"])
    print(str(r["detail"])[:1500])
    for o in small:
        print("   ", o)


def main(argv=None):
    ap = argparse.ArgumentParser()
    ap.add_argument("prop", nargs="?")
    ap.add_argument("--tier", default=os.environ.get("VERIF_TIER", "quick"))
    ap.add_argument("--seed", default=None)
    ap.add_argument("--replay")
    ap.add_argument("--quiet", action="store_true")
    ap.add_argument("--budget", type=float)
    ap.add_argument("--runs", type=int, default=10 ** 9)
    ap.add_argument("--workers", type=int, default=int(os.environ.get("VERIF_WORKERS", "16")))
    ap.add_argument("--hash-worker", nargs=5)
    ap.add_argument("-v", action="store_true")
    ap.add_argument("--triage", type=int)
    ap.add_argument("--shrink-file")
    a = ap.parse_args(argv)
    if a.hash_worker:
        hash_worker_main(a.hash_worker)
        return 0
    if a.shrink_file:
        shrink_file(a.shrink_file)
        return 0
    if a.replay:
        ok = replay_file(a.replay, a.quiet)
        return 1 if ok else 0
    tier = a.tier if a.tier in ("quick", "thorough") else "quick"
    seed = a.seed if a.seed is not None else os.environ.get("VERIF_SEED")
    try:
        seed = int(seed) if seed is not None else DEFAULT_SEED[tier]
    except ValueError:
        seed = int(hashlib.sha1(str(seed).encode()).hexdigest()[:8], 16)
    if a.triage:
        triage(a.prop, tier, seed, a.triage)
        return 0
    budget = a.budget if a.budget is not None else BUDGET[tier]
    return main_check(a.prop, tier, seed, budget, a.runs, a.workers, a.v)


if __name__ == "__main__":
    if os.environ.get("PYTHONHASHSEED") is None:
        os.environ["PYTHONHASHSEED"] = "0"
        os.execv(sys.executable, [sys.executable, "-m", "sim.runner"] + sys.argv[1:])
    sys.exit(main())
